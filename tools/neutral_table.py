#!/usr/bin/env python3
"""Markdown table of the behaviour-preserving changes and what the checks said about them."""
import json, glob, re
DESC = {
 "N1-change1": "interpreter: shared helpers for the available funds of a source and for the overdraft limit",
 "N1-change2": "interpreter: alreadySentBy answered from running per-account totals instead of rescanning the senders",
 "N1-change3": "interpreter: statement handlers restructured (table of statement functions, drawSentValue, early returns in save)",
 "N2-change1": "Reconcile split into helpers (kept withholding, pairing, append-or-merge)",
 "N2-change2": "makeAllotment on integers (floor(num*amount/den)) with the leftover distributed by a slice of the parts",
 "N2-change3": "receiveFrom split into methods, dead code removed",
 "N3-change1": "balance prefetch split into helpers, map lookups instead of slices.Contains(maps.Keys)",
 "N3-change2": "variable parsing through a table of parsers, strings.Cut, portion parsing split into helpers",
 "N3-change3": "infix / builtin argument handling merged into shared helpers, Sign() instead of Cmp(0)",
 "N4-change1": "parser: generic list conversion helper, merged allotment / portion paths",
 "N4-change2": "parser: strings.Builder in error rendering, table of powers of ten in percentage parsing",
 "N4-change3": "parser: position helpers, error-listener split, range utilities rewritten",
 "N5-change1": "checker: shared helpers for allotment portions and their sum",
 "N5-change2": "hover traversal restructured (per-statement helper, direct returns)",
 "N5-change3": "checker: one scope snapshot per capped source (maps.Clone), arity check, variable lookup, allotment-sum switch",
 "N6-change1": "lsp: hover handler split, parameter list built with strings.Join",
 "N6-change2": "lsp: method dispatch through a table with a generic parameter decoder",
 "N6-change3": "lsp: framing / notification helpers, pre-sized slices",
 "N7-change1": "cmd run: input files read through one loop over a table",
 "N7-change2": "cmd run: feature flags, error reporting and output printers extracted",
 "N7-change3": "cmd check: sorting / printing / pluralisation helpers, error count taken in the print loop",
}
print('| change | what it does | suite passes | checks run (quick) | alarms | inconclusive paths |')
print('|---|---|---|---|---|---|')
n = bad = 0
for f in sorted(glob.glob('/verif/seeded/neutral/*/meta.json')):
    m = json.load(open(f))
    inc = 0
    for c, r in (m.get('results') or {}).items():
        for s in r.get('summary', []):
            mm = re.search(r'inconclusive_paths=(\d+)', s)
            if mm:
                inc += int(mm.group(1))
    n += 1
    if m.get('alarms'):
        bad += 1
    print('| %s | %s | %s | %s | %s | %d |' % (m['id'], DESC.get(m['id'], ''), 'yes' if m.get('existing_tests_pass_with_change') else 'NO', ', '.join(m.get('checks_run', [])), ', '.join(m.get('alarms') or []) or 'none', inc))
print()
print('%d behaviour-preserving changes, %d raised an alarm.' % (n, bad))

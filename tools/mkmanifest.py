#!/usr/bin/env python3
"""Regenerates /verif/MANIFEST.json from the table below."""
import json, sys

TECH = "bounded symbolic execution of /repo's go/ssa with an SMT solver (z3) deciding every branch and assertion; a sample of the unsat verdicts re-decided by cvc5 and z3 5.1.0; counterexamples replayed natively"

CLAIMED = {
 "C01": ("§6 C01", "All 1-3 statement scripts of the template family (sources with repeated/aliased accounts, bounded/unbounded overdraft, caps, allotments, save) run through the public Parse/Run API on symbolic balances, amounts, caps and limits; the solver shows that replaying the returned postings never takes a non-exempt account below min(start, -granted overdraft), for every integer valuation.",
         "Holds for the enumerated script shapes only; numbers are unbounded. Trusted: math/big modelled as exact integers, native ANTLR parse; StaticStore plus exact / sparse harness stores on two-asset scripts; every case also with each variable used again by a trailing send."),
 "C02": ("§6 C02", "Every posting returned by a successful run is asserted positive, between real accounts and in a send's asset, for all balances/caps/amounts (any sign) of the template family; per-asset totals equal the reference. On shapes the reference semantics leaves undefined (e.g. a remaining clause next to portions above one) the script is still run and the posting-local clauses asserted.",
         "Script shapes bounded (<=3 leaves, <=4 destination clauses); numbers unbounded."),
 "C03": ("§6 C03", "Single fixed-amount sends over the source x destination template family: success iff the reference greedy draw can fund n; on success postings sum to n minus kept; on failure the zero result is returned with MissingFundsErr. Both directions are asserted and decided by the solver for all integer inputs.",
         "Script shapes bounded; amounts enter through monetary variables."),
 "C04": ("§6 C04", "Per-account debit totals of fixed and send-all sends equal the left-to-right greedy draw of the reference for all balances; send-all rejections (unbounded / allotment outside a cap) are checked structurally.",
         "Source trees <=3 leaves, depth <=2; numbers unbounded."),
 "C05": ("§6 C05", "Per-account credit totals equal the ordered/allotment distribution of the reference for all sent amounts and caps (zero, negative, huge), kept in every position; credited + kept = sent.",
         "Destination trees bounded (clauses <=5, nesting <=3)."),
 "C06": ("§6 C06", "makeAllotment executed symbolically for every enumerated portion vector (literals, portion variables, remaining in every position) with the amount an arbitrary integer >= 0: shares sum to the amount, each share is floor(p*M) plus one unit for the first M - sum(floors) clauses, sums != 1 are rejected; the same through the public API for source and destination allotments.",
         "Portion vectors are enumerated on a denominator grid (p*M with both symbolic is non-linear); the amount is unbounded."),
 "C07": ("§6 C07", "interpreter.Reconcile executed symbolically on arbitrary positive sender/receiver amounts with equal totals, every aliasing pattern of names and <kept> in every position: net flow per (source, destination) equals the closed-form in-order pairing; kept units are never posted.",
         "List lengths bounded (quick 3x3, thorough 4x5); amounts unbounded. Plus an API tier: 30 scripts (kept shares over several sources, one cap variable on several clauses) compared with the reference pairing, each also with every variable used again afterwards."),
 "C08": ("§6 C08", "save followed by sends (and interleavings) through the public API: flows equal the reference in which save lowers the visible balance to max(0, b-n) (never raising a negative balance); negative saves are rejected.",
         "<=2 saves (two assets) and <=2 sends; numbers unbounded; StaticStore plus exact / sparse / interned stores."),
 "C09": ("§6 C09", "For every 2-3 statement script of the family the harness runs the whole script and each statement alone on the balances left by the previous ones (postings actually returned + the save rule), all on symbolic balances; the solver shows the postings are element-wise identical, failures coincide in class, and metadata merges key-wise with last write winning.",
         "13 statement kinds, scripts of 2-3 statements, the pairs that can move @a without funds also on a store that has never heard of @a; numbers unbounded; variables do not read balances."),
 "C10": ("§6 C10", "Each script (balance()/overdraft()/meta() origins, saves, account variables, two assets) is run against five harness stores (exact, sparse, superset, static, interned) over one symbolic truth table inside a single symbolic path; results are asserted pairwise identical for every table, and the exact store asserts that @world is never requested.",
         "53 (quick) / 61 (thorough) hand-written templates incl. scripts that read the balance of @world, a capped @world followed by another source, self-postings and stores holding other spellings of the requested metadata key, plus 20 (quick) / ~100 (thorough) GENERATED source shapes (two-leaf trees with caps, overdrafts, allotments; allotments whose items are @world, unbounded accounts or lists); <=4 accounts x 2 assets; stores returning nil maps are outside."),
 "C11": ("§6 C11", "Four harness modes per script, all on symbolic balances: purity (write-confinement monitor over the VM heap + explicit comparison of the variables map and the store's balance/metadata maps), determinism (second run under every iteration order of the maps it ranges over), flags (no flag / gate flag / unknown flag), re-entrancy by reduction (two runs on one ParseResult write only objects they allocated; no package-level variable is written).",
         "Goroutine interleavings are NOT modelled: re-entrancy is decided by write confinement (disjoint write sets cannot interfere); native replay of a confinement finding runs under the race detector. Per path one ranged map (thorough: two), each in turn, takes every order (maps > 3 entries: identity/reverse/rotation), the others insertion order. sync.Map/Once/Mutex/Pool/atomic are modelled sequentially. A fifth mode runs the same script before and after a run of another script (independence of process history); the answers mode lets a store keep what it handed out (metadata maps and, with an interned store, the numbers themselves) and finds it unchanged."),
 "C12": ("§6 C12", "Every reachable Go panic site on every explored path is a violation (API template families, arbitrary variable bytes per declared type through the symbolic regexp/SetString models, one trigger per error class, store failure injected at every call incl. queries of 20 and 40 accounts, nil store maps); errors must carry the class naming the cause and come with the zero result.",
         "Variable texts <= 3 (quick) / 5 (thorough) arbitrary bytes; script families as C01/C03/C05/C08/C10."),
 "C13": ("§6 C13", "ParsePercentageRatio / parsePercentageRatio / parseRatio and ParsePortionSpecific executed symbolically on token texts of a fixed layout with EVERY digit symbolic: the result equals digits/10^(f+2) resp. N/D in base ten (cross-multiplied), variables agree with literals and are rejected exactly outside [0,1]; metadata round trip through two real scripts for all integers (numbers, monetaries), symbolic-byte assets and strings, accounts and a grid of portions, incl. the JSON form of transaction metadata: valid JSON that decodes to the stored text (monetaries whose asset contains a quote, a backslash, &<> or non-ASCII included).",
         "Digit counts bounded (quick 3+3, thorough 22); ratio-variable denominators concrete per case; portion round trips on concrete texts."),
 "C14": ("§6 C14", "SCOPED to the kernels that can be encoded: parseNumberLiteral (real strconv.Atoi from SSA), parsePercentageRatio, parseRatio on token texts with every digit symbolic; ErrorListener.SyntaxError on tokens with symbolic UTF-8 text at symbolic positions; ParseErrorsToString/ShowOnSource on small sources with the error anywhere or at <EOF>. Every reachable panic site is a violation; error ranges start at the reported position and do not end before it.",
         "The ANTLR lexer/parser itself (termination, acceptance, rejection) is OUTSIDE the encoding: this check does not decide 'every input string'. Token stubs follow the stated ANTLR contract. By-product (direct execution, no solver verdict over texts): the real parser on a corpus of ~1000 valid, invalid and edited texts (non-ASCII, truncated after a newline, strings ending in a backslash, illegal characters) with rendering of every reported error."),
 "C15": ("§6 C15", "SCOPED to range arithmetic: tokenToRange and ctxToRange on tokens whose text is any valid UTF-8 of the layout (symbolic bytes) at symbolic positions span exactly the character count, children lie within parents and siblings do not overlap; Position.GtEq is the lexicographic total order and Range.Contains the closed interval, for all positions.",
         "Tree structure, literal values, associativity and layout/comment invariance depend on the ANTLR parse and are OUTSIDE the solver verdict; they are covered as a by-product by running the real parser on 26 generated scripts (expected tree built alongside the text) in 4-8 layouts each, one of them with block comments glued between all tokens. Known finding: a comment glued to an asset / number / ratio token changes the parse."),
 "C16": ("§6 C16", "analysis.CheckProgram executed in the VM on parser-produced trees: 27 statically valid templates (incl. negative and zero literals wherever a number or an amount may stand) get no error (literal portion numerators symbolic: accepted exactly when they sum to one); for name templates every declaration and every use takes every name of a pool (all deletions, duplications, renamings): unbound / duplicate / unused variables are reported exactly once at their token and nothing else is (a variable mentioned only before its declaration counts as unused).",
         "Template lists are finite; names and types are finite choices concretised by forking; numerators are unbounded. 20 two-step sequences check that a valid script gets the same diagnostics after another text was analysed in the same process."),
 "C17": ("§6 C17", "CheckProgram then RunProgram inside one symbolic path for valid templates with up to two mis-declared variable types over all six types, and 65 type-breaking edits (incl. self-referencing origins, misplaced remaining clauses, defects in sources listed after an unbounded one); whenever the checker reports no error the run (all integers as numbers/amounts, symbolic balances) does not fail with TypeError, UnboundVariable, UnboundFunction, BadArity or InvalidType; with no diagnostics at all, not with a send-all shape error either.",
         "Template lists are finite; non-numeric variable values take one representative each."),
 "C18": ("§6 C18", "SCOPED: on each tree the real parser produces for a text of the edit corpus (prefixes, token deletions/duplications, bracket edits, insertions of tokens and of characters no token can contain, hand-written broken texts) CheckSource, GetSymbols, HoverOn and GotoDefinition run in the VM with the cursor position SYMBOLIC (every line/character) and the checker's map iteration orders symbolic: every reachable panic site is a violation, diagnostics start inside the document and do not end before they start, re-analysis yields the same diagnostics and symbols.",
         "The text dimension is a bounded corpus (text -> partial tree is ANTLR error recovery, outside the encoding); positions and iteration orders are quantified by the solver."),
 "C19": ("§6 C19", "lsp.Handle executed in the VM: ONE request (didOpen / didChange with 0-2 content changes / hover / definition / documentSymbol / other) from an ARBITRARY state satisfying the invariant 'each stored document = (latest text, analysis of it)' over 2 URIs (differing only in the case of one letter) x 3 texts, addressed to any of 3 URIs, cursor position symbolic: invariant preserved, only the addressed entry changes, exactly one publishDiagnostics with the fresh analysis of the last content change, query responses equal those of a fresh server that saw only the latest text. Navigation: at EVERY position inside a variable use hover names it and its type and definition is its declaration; builtin names show the function; elsewhere nothing.",
         "One inductive step covers histories of any length given the invariant. Texts from a 3-text alphabet; JSON and message framing are stubs/outside."),
 "C20": ("§6 C20", "SCOPED to the command functions: cmd.check on corpus files (exit status 1 exactly when an error-severity diagnostic exists; every diagnostic's position and message printed) and cmd.run through --raw, --stdin, file flags and four mixed combinations of them in JSON mode on symbolic balances and amounts (stdout is exactly the JSON of the library's result; on a library error exit 1 with the message), with os/fmt/json/io replaced by environment stubs in the VM; native replay uses real files, stdin and a child process.",
         "The process itself (cobra parsing, main's wrapper, the real exit status) is OUTSIDE. check() involves no symbolic numbers: there the solver only confirms path feasibility; run() quantifies over balances and amounts."),
}

NA = {}

ALL = ["C%02d" % i for i in range(1, 21)]

def main():
    checks = []
    for pid in ALL:
        if pid in CLAIMED:
            ref, text, note = CLAIMED[pid]
            checks.append({
                "property_id": pid,
                "quick_cmd": "./check %s quick" % pid,
                "thorough_cmd": "./check %s thorough" % pid,
                "evidence_file": "/verif/evidence/%s.json" % pid,
                "replay_cmd_template": "./check --replay {path}",
                "engine": "nsvm",
                "level_claimed": {"category": "model_checking", "text": text, "design_ref": "DESIGN.md " + ref},
                "level_note": note,
                "technique": TECH,
            })
    na = []
    for pid in ALL:
        if pid not in CLAIMED:
            na.append({"property_id": pid, "reason": NA.get(pid, "check not built yet in this session (planned, see DESIGN.md §6)")})
    m = {
        "version": 1,
        "setup_cmd": "./check --setup",
        "hooks": {
            "guard": "verif",
            "enable": "none needed: harness files are injected with go/packages overlays and `go test -overlay`; /repo is never written by the checks",
            "baseline_off_cmd": "cd /repo && GOFLAGS=-mod=mod go test -vet=off -count=1 ./...",
            "source_commits": [],
            "add_only": True,
        },
        "engines": [{
            "name": "nsvm", "path": "/verif/engine",
            "serves_properties": sorted(CLAIMED),
            "kind_free_text": "own symbolic executor for go/ssa (x/tools v0.29.0): real numscript functions interpreted over SMT terms, stateless DFS with decision prefixes, one z3 -in per worker, native replay of every model",
        }],
        "checks": checks,
        "not_applicable": na,
        "notes": "Every claim is bounded (see evidence bounds / DESIGN.md). Genuine defects of the pinned tree are repaired by 'fix:' commits in /repo and listed in known_findings.json.",
    }
    json.dump(m, open("/verif/MANIFEST.json", "w"), indent=1)
    print("MANIFEST.json written:", len(checks), "checks,", len(na), "not applicable")

if __name__ == "__main__":
    main()

#!/usr/bin/env python3
"""Markdown table of the case families each check ran (from evidence/*.json)."""
import json, glob
print('| check | tier | cases | symbolic paths | solver queries | case families (cases) |')
print('|---|---|---|---|---|---|')
for f in sorted(glob.glob('/verif/evidence/C*.json')):
    e = json.load(open(f)); c = e['coverage']
    fam = c.get('case_families', {})
    # fold the observed twins into one entry
    obs = sum(v for k, v in fam.items() if k.startswith('variables-used-again/'))
    items = ['%s (%d)' % (k, v) for k, v in sorted(fam.items()) if not k.startswith('variables-used-again/')]
    if obs:
        items.append('the same with every variable used again (%d)' % obs)
    print('| %s | %s | %s | %s | %s | %s |' % (e['property_id'], e['tier'], c.get('cases'), c.get('symbolic_paths'), c.get('queries_discharged'), '; '.join(items)))

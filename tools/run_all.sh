#!/bin/bash
# runs every check of the given tier sequentially, logs under work/all-<tier>/
tier=${1:-quick}
mkdir -p /verif/work/all-$tier
cd /verif
for id in C01 C02 C03 C04 C05 C06 C07 C08 C09 C10 C11 C12 C13 C14 C15 C16 C17 C18 C19 C20; do
  s=$(date +%s)
  timeout ${2:-3600} ./check $id $tier > /verif/work/all-$tier/$id.log 2>&1
  rc=$?
  e=$(date +%s)
  echo "$id rc=$rc wall=$((e-s))s $(grep -c '^VIOLATION' /verif/work/all-$tier/$id.log) violations; $(grep SUMMARY /verif/work/all-$tier/$id.log)"
done

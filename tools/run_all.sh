#!/bin/bash
# runs every check of the given tier sequentially, logs under work/all-<tier>/
tier=${1:-quick}
V="$(cd "$(dirname "$0")/.." && pwd)"
cd "$V"
mkdir -p "$V/work/all-$tier"
for id in ${CHECKS:-C01 C02 C03 C04 C05 C06 C07 C08 C09 C10 C11 C12 C13 C14 C15 C16 C17 C18 C19 C20}; do
  s=$(date +%s)
  timeout ${2:-3600} ./check $id $tier > "$V/work/all-$tier/$id.log" 2>&1
  rc=$?
  e=$(date +%s)
  echo "$id rc=$rc wall=$((e-s))s $(grep -c '^VIOLATION' "$V/work/all-$tier/$id.log") violations; $(grep SUMMARY "$V/work/all-$tier/$id.log")"
done

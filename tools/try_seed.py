#!/usr/bin/env python3
"""Confirm a seeded change and run checks against it.
usage: try_seed.py <seed-id> <property> <patch.diff> <demo_test.go> <checks,comma> [tier]
 - confirms: patch applies, builds, existing tests pass, demo fails with the patch and passes without
 - runs the given checks against the patched /repo, reverts /repo afterwards
 - writes /verif/seeded/<seed-id>/{patch.diff, demo file, meta.json}
"""
import json, os, re, shutil, subprocess, sys, time

OUT = ""
ENV = dict(os.environ, GOFLAGS="-mod=mod", GOPROXY="off", GOSUMDB="off", GOTOOLCHAIN="local")

def sh(cmd, cwd=None, timeout=3600):
    p = subprocess.run(cmd, shell=True, cwd=cwd, env=ENV, capture_output=True, text=True, timeout=timeout)
    return p.returncode, (p.stdout + p.stderr)

REPO = "/repo"

def clean_repo():
    if REPO == "/repo":
        sh("git checkout -- . && git clean -fdq", cwd="/repo")
    else:
        sh("git worktree remove --force %s" % REPO, cwd="/repo")
        sh("rm -rf %s" % OUT)

def main():
    sid, prop, patch, demo, checks = sys.argv[1:6]
    tier = sys.argv[6] if len(sys.argv) > 6 else "quick"
    meta = {"seed": sid, "property": prop, "checks_run": checks.split(","), "tier": tier, "at": time.strftime("%Y-%m-%d %H:%M:%S")}
    try:
        desc = json.load(open("/verif/tools/seed_desc.json")).get(sid, {})
        meta["what"] = desc.get("what", "")
        meta["needs"] = desc.get("needs", "")
    except Exception:
        pass
    if os.environ.get("VERIF_ROOT"):
        rc0, head = sh("git rev-parse --short HEAD", cwd=os.environ["VERIF_ROOT"])
        meta["checks_from"] = "frozen copy of /verif at commit " + head.strip()
    meta["source"] = "written by an independent sub-agent that saw only the property text and a scratch worktree"
    global REPO, OUT
    if os.environ.get("SEED_IN_PLACE") != "1":
        # evaluate in a scratch worktree of /repo's HEAD so that /repo itself is never touched
        REPO = "/tmp/seedwt/" + sid
        OUT = "/tmp/seedout/" + sid
        sh("rm -rf %s %s; git worktree prune" % (REPO, OUT), cwd="/repo")
        os.makedirs("/tmp/seedwt", exist_ok=True)
        os.makedirs(OUT, exist_ok=True)
        base = os.environ.get("SEED_BASE", "HEAD")
        rc, out = sh("git worktree add -q --detach %s %s" % (REPO, base), cwd="/repo")
        meta["repo_commit"] = sh("git rev-parse --short %s" % base, cwd="/repo")[1].strip()
        if rc != 0:
            print("cannot create worktree:", out); sys.exit(2)
        ENV["VERIF_REPO"] = REPO
        ENV["VERIF_OUT"] = OUT
        meta["mode"] = "scratch worktree of /repo HEAD (VERIF_REPO)"
    else:
        meta["mode"] = "applied to /repo in place, reverted afterwards"
        rc, out = sh("git status --porcelain", cwd="/repo")
        if out.strip():
            print("/repo is dirty, refusing"); sys.exit(2)
    first = open(demo).readline()
    m = re.search(r'([\w./-]+_test\.go)', first)
    demo_dst = m.group(1) if m else "internal/interpreter/zz_demo_test.go"
    demo_dst = demo_dst.lstrip("/")
    if demo_dst.startswith("tmp/") or demo_dst.startswith("repo/"):
        demo_dst = demo_dst.split("/", 3)[-1] if demo_dst.startswith("tmp/") else demo_dst[5:]
    meta["demo_location"] = demo_dst
    pkg_dir = os.path.dirname(demo_dst) or "."
    # run exactly the tests the demonstration file defines
    names = re.findall(r'^func (Test\w+)\(', open(demo).read(), re.M)
    run_re = "^(" + "|".join(names) + ")$" if names else "Demo|demo"
    meta["demo_tests"] = names
    try:
        # demo passes without the change
        shutil.copy(demo, os.path.join(REPO, demo_dst))
        race = "-race " if prop == "C11" else ""
        rc, out = sh("go test %s-vet=off -count=1 -run '%s' ./%s" % (race, run_re, pkg_dir), cwd=REPO)
        meta["demo_passes_without_change"] = rc == 0
        os.remove(os.path.join(REPO, demo_dst))
        # apply
        rc, out = sh("git apply %s" % patch, cwd=REPO)
        if rc != 0:
            # the patch was written against an earlier HEAD (before a later fix: commit): merge it
            rc, out = sh("git apply --3way %s && git reset -q" % patch, cwd=REPO)
            meta["patch_applied_with_3way_merge"] = rc == 0
        if rc != 0:
            meta["error"] = "patch does not apply: " + out[-500:]
            print(json.dumps(meta, indent=1)); return
        rc, out = sh("go build ./... && go test -vet=off -count=1 ./...", cwd=REPO)
        meta["existing_tests_pass_with_change"] = rc == 0
        if rc != 0:
            meta["tests_output_tail"] = out[-800:]
        shutil.copy(demo, os.path.join(REPO, demo_dst))
        rc, out = sh("go test %s-vet=off -count=1 -run '%s' ./%s" % (race, run_re, pkg_dir), cwd=REPO)
        meta["demo_fails_with_change"] = rc != 0
        os.remove(os.path.join(REPO, demo_dst))
        # run the checks against the patched tree
        results = {}
        for c in checks.split(","):
            t0 = time.time()
            rc, out = sh("./check %s %s" % (c, tier), cwd=os.environ.get("VERIF_ROOT", "/verif"), timeout=7200)
            viol = [l for l in out.splitlines() if l.startswith("VIOLATION")]
            detail = [l.strip()[:300] for l in out.splitlines() if l.startswith("  case=")]
            asserts = sorted(set(re.findall(r'(?:assert|panic)=(\S+)', "\n".join(detail))))
            results[c] = {"exit": rc, "violations": len(viol), "assertions": asserts[:12], "first_cases": detail[:3], "wall_s": round(time.time() - t0, 1),
                          "tool_notes": [l[:300] for l in out.splitlines() if l.startswith("TOOL-NOTE")][:3]}
        meta["results"] = results
        meta["detected_by"] = [c for c, r in results.items() if r["exit"] == 1]
    finally:
        clean_repo()
    d = "/verif/seeded/" + sid
    os.makedirs(d, exist_ok=True)
    # keep the result of the FIRST evaluation (before any check was extended because of this seed)
    try:
        prev = json.load(open(d + "/meta.json"))
        meta["first_detected_by"] = prev.get("first_detected_by", prev.get("detected_by", []))
        meta["first_evaluated_at"] = prev.get("first_evaluated_at", prev.get("at"))
        hist = prev.get("history", [])
        hist.append({"at": prev.get("at"), "checks_from": prev.get("checks_from", "live /verif"), "repo_commit": prev.get("repo_commit"),
                     "checks_run": prev.get("checks_run"), "detected_by": prev.get("detected_by"), "error": prev.get("error")})
        meta["history"] = hist
    except Exception:
        meta["first_detected_by"] = meta.get("detected_by", [])
        meta["first_evaluated_at"] = meta.get("at")
    shutil.copy(patch, d + "/patch.diff")
    shutil.copy(demo, d + "/" + os.path.basename(demo_dst))
    json.dump(meta, open(d + "/meta.json", "w"), indent=1)
    print(json.dumps(meta, indent=1))

if __name__ == "__main__":
    main()

#!/bin/bash
# usage: reseed.sh <seed-id> <checks,comma>   re-evaluates one seed of round >= 6 (files in seeded/_incoming<r>) with the live checks
sid=$1; prop=${sid%%-*}; m=${sid: -1}; r=${sid#*-r}; r=${r%?}; d=/verif/seeded/_incoming$r
mkdir -p /tmp/seedgen$r
python3 /verif/tools/try_seed.py $sid $prop $d/$prop.mut$m.diff $d/$prop.mut$m.demo_test.go "$2" > /tmp/seedgen$r/re-$sid.json 2>&1
python3 - $sid <<'PY'
import json,sys
m=json.load(open('/verif/seeded/%s/meta.json'%sys.argv[1]))
print(sys.argv[1], 'detected_by=', m.get('detected_by'), {c:(r['violations'], r['assertions'][:2]) for c,r in m.get('results',{}).items()}, m.get('error',''))
PY

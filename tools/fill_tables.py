#!/usr/bin/env python3
"""Regenerates the generated tables of DESIGN.md (seed tables, case families)."""
import subprocess, re
p = '/verif/DESIGN.md'
s = open(p).read()
def fill(s, begin, end, text):
    i = s.index(begin) + len(begin)
    j = s.index(end)
    return s[:i] + '\n' + text.strip() + '\n' + s[j:]
seed = subprocess.run(['python3', '/verif/tools/seed_table.py'], capture_output=True, text=True).stdout
fam = subprocess.run(['python3', '/verif/tools/families_table.py'], capture_output=True, text=True).stdout
neu = subprocess.run(['python3', '/verif/tools/neutral_table.py'], capture_output=True, text=True).stdout
s = fill(s, '<!-- SEED-TABLE-BEGIN -->', '<!-- SEED-TABLE-END -->', seed)
s = fill(s, '<!-- FAMILIES-TABLE-BEGIN -->', '<!-- FAMILIES-TABLE-END -->', fam)
s = fill(s, '<!-- NEUTRAL-TABLE-BEGIN -->', '<!-- NEUTRAL-TABLE-END -->', neu)
open(p, 'w').write(s)
print('tables filled')

#!/bin/bash
# usage: seed_batch2.sh "<ids>" "<checks>"   round-2 files in /tmp/mut2/<ID>.mut{A,B}.*  -> seeds <ID>-r2A / -r2B
for id in $1; do
  for m in A B; do
    d=/tmp/mut2/$id.mut$m.diff; t=/tmp/mut2/$id.mut$m.demo_test.go
    [ -f "$d" ] && [ -f "$t" ] || { echo "$id r2$m: missing files"; continue; }
    python3 /verif/tools/try_seed.py $id-r2$m $id $d $t "$2" > /tmp/mut2/$id.r2$m.result.json 2>&1
    python3 - "$id-r2$m" /tmp/mut2/$id.r2$m.result.json <<'PY'
import json,sys
try:
    txt=open(sys.argv[2]).read(); m=json.loads(txt[txt.index('{'):])
    print(sys.argv[1], "confirmed=%s/%s/%s"%(m.get("demo_passes_without_change"),m.get("existing_tests_pass_with_change"),m.get("demo_fails_with_change")), "detected_by=",m.get("detected_by"), {c:(r["violations"],r["assertions"][:3]) for c,r in m.get("results",{}).items() if r["exit"]==1}, m.get("error",""))
except Exception as e:
    print(sys.argv[1], "ERROR", e, open(sys.argv[2]).read()[-300:])
PY
  done
done

#!/bin/bash
# copies finished round-6 seeds into seeded/_incoming6 and fills seed_desc.json
src=/tmp/seedgen6/out; dst=/verif/seeded/_incoming6; mkdir -p $dst
for id in $1; do
  cp $src/$id.mut?.diff $src/$id.mut?.demo_test.go $src/$id.mut?.txt $dst/ 2>/dev/null
  [ -f $src/$id.remarks.txt ] && cp $src/$id.remarks.txt $dst/
  python3 - $id <<'PY'
import json,sys,os
id=sys.argv[1]; p='/verif/tools/seed_desc.json'; d=json.load(open(p))
for m in 'AB':
    f='/verif/seeded/_incoming6/%s.mut%s.txt'%(id,m)
    if not os.path.exists(f): continue
    t=' '.join(open(f).read().split())
    k='%s-r6%s'%(id,m)
    if k not in d: d[k]={"what":t[:400],"needs":"see what"}
json.dump(d,open(p,'w'),indent=1)
PY
done

#!/usr/bin/env python3
"""Re-evaluate every seeded change with the live checks (final pass).
usage: seed_final.py [workers] [only-seed-prefixes...]
For each seed the property's own check is run, plus up to three other checks that
caught it in an earlier evaluation (so the table shows which checks catch which change)."""
import json, os, subprocess, sys, glob, concurrent.futures as cf

V = "/verif"
EXTRA = {  # checks known (from probes) to be the natural catchers besides the seed's own property
    "C08-r2A": ["C10", "C09"], "C09-r2B": ["C10"], "C13-r2B": ["C09"], "C18-r2B": ["C16"], "C14-r2B": ["C15"],
    "C08-r5A": ["C13"], "C13-r5B": ["C09"], "C18-r5A": ["C14"],
}

def meta_own_missed(sid):
    """True when the last evaluation did not catch the seed with the check of its own property."""
    try:
        m = json.load(open("%s/seeded/%s/meta.json" % (V, sid)))
        return m["property"] not in (m.get("detected_by") or [])
    except Exception:
        return True

def seeds():
    out = []
    for inc, tag in (("_incoming", "mut"), ("_incoming2", "r2"), ("_incoming3", "r3"), ("_incoming4", "r4"), ("_incoming5", "r5")):
        for d in sorted(glob.glob("%s/seeded/%s/C??.mut?.diff" % (V, inc))):
            base = os.path.basename(d)
            prop, m = base[:3], base[7]
            sid = "%s-%s%s" % (prop, tag, m)
            demo = d.replace(".diff", ".demo_test.go")
            if not os.path.exists(demo):
                continue
            checks = [prop]
            try:
                meta = json.load(open("%s/seeded/%s/meta.json" % (V, sid)))
                prev = list(meta.get("detected_by") or []) + list(meta.get("first_detected_by") or [])
                for h in meta.get("history", []):
                    prev += list(h.get("detected_by") or [])
            except Exception:
                prev = []
            if not os.environ.get("OWN_ONLY") or meta_own_missed(sid):
                for c in EXTRA.get(sid, []) + prev:
                    if c not in checks and len(checks) < 4:
                        checks.append(c)
            out.append((sid, prop, d, demo, ",".join(checks)))
    return out

def run(job):
    sid, prop, d, demo, checks = job
    env = dict(os.environ)
    env.pop("VERIF_ROOT", None); env.pop("SEED_BASE", None)
    p = subprocess.run(["python3", V + "/tools/try_seed.py", sid, prop, d, demo, checks], capture_output=True, text=True, env=env)
    txt = p.stdout
    try:
        m = json.loads(txt[txt.index("{"):])
        line = "%s confirmed=%s/%s/%s detected_by=%s %s" % (sid, m.get("demo_passes_without_change"), m.get("existing_tests_pass_with_change"), m.get("demo_fails_with_change"), m.get("detected_by"), m.get("error", ""))
    except Exception as e:
        line = "%s ERROR %s %s" % (sid, e, (txt + p.stderr)[-300:])
    print(line, flush=True)
    return line

if __name__ == "__main__":
    workers = int(sys.argv[1]) if len(sys.argv) > 1 else 2
    only = sys.argv[2:]
    jobs = [j for j in seeds() if not only or any(o in j[0] for o in only)]
    with cf.ThreadPoolExecutor(workers) as ex:
        list(ex.map(run, jobs))

#!/usr/bin/env python3
"""Prints the markdown table of seeded changes from /verif/seeded/*/meta.json."""
import json, glob, os
rows = []
for f in sorted(glob.glob('/verif/seeded/*/meta.json')):
    m = json.load(open(f))
    ok = m.get('demo_passes_without_change') and m.get('existing_tests_pass_with_change') and m.get('demo_fails_with_change')
    det = m.get('detected_by', [])
    own = m['property'] in det
    what = m.get('what', '')
    needs = m.get('needs', '')
    first = m.get('first_detected_by', det)
    blind = '' if sorted(first) == sorted(det) else ('first run: ' + (', '.join(first) if first else 'missed'))
    rows.append((m['seed'], m['property'], 'yes' if ok else 'NO', ', '.join(det) if det else '— (missed)', 'yes' if own else 'no', blind, what, needs))
print('| seed | breaks | confirmed | caught by (quick tier) | own check | blind | change | needs |')
print('|---|---|---|---|---|---|---|---|')
for r in rows:
    print('| ' + ' | '.join(r) + ' |')
missed = [r for r in rows if r[3].startswith('—')]
print()
print('%d seeded changes, %d caught by at least one check, %d caught by the check of the property they target, %d missed.' % (len(rows), len(rows) - len(missed), sum(1 for r in rows if r[4] == 'yes'), len(missed)))

#!/usr/bin/env python3
"""Prints the markdown tables of seeded changes from /verif/seeded/*/meta.json.
Per seed: the first evaluation (for rounds 2 and 3 a blind one, run from a frozen copy of
/verif taken before the seeds of that round were looked at) and the final evaluation with
the checks as committed."""
import json, glob, os, re

def rnd(seed):
    if '-mut' in seed: return 1
    if '-r2' in seed: return 2
    if '-r3' in seed: return 3
    if '-r4' in seed: return 4
    if '-r5' in seed: return 5
    if '-r6' in seed: return 6
    if '-r7' in seed: return 7
    return 0

rows = []
for f in sorted(glob.glob('/verif/seeded/C*/meta.json')):
    m = json.load(open(f))
    ok = m.get('demo_passes_without_change') and m.get('existing_tests_pass_with_change') and m.get('demo_fails_with_change')
    det = m.get('detected_by') or []
    hist = m.get('history', [])
    first = hist[0] if hist else {"detected_by": det, "checks_from": m.get("checks_from", "live /verif"), "checks_run": m.get("checks_run"), "error": m.get("error")}
    # the first evaluation that actually applied the patch
    for h in hist:
        if not h.get("error"):
            first = h
            break
    fdet = first.get('detected_by') or []
    if rnd(m['seed']) == 1 and m.get('first_detected_by') is not None:
        # round 1 predates the history field: its first evaluation is kept in first_detected_by
        fdet = m.get('first_detected_by') or []
    frozen = 'frozen' in (first.get('checks_from') or '')
    final_is_first = not hist
    rows.append(dict(seed=m['seed'], prop=m['property'], ok='yes' if ok else 'NO', first=fdet, frozen=frozen, final=det, own=m['property'] in det,
                     what=m.get('what', ''), needs=m.get('needs', ''), only_one=final_is_first, round=rnd(m['seed']), checks=m.get('checks_run') or []))

def fmt(xs):
    return ', '.join(xs) if xs else '— (missed)'

for r in (1, 2, 3, 4, 5, 6, 7):
    rs = [x for x in rows if x['round'] == r]
    if not rs:
        continue
    print('**Round %d** (%d changes)' % (r, len(rs)))
    print()
    if r >= 4:
        print('(first evaluation of round %d: only the check of the targeted property was run)' % r)
        print()
    if r >= 6:
        print('(round %d was' % r + ' first evaluated with the live checks as they stood when the seeds arrived, before any of them was looked at)')
        print()
    print('| seed | breaks | confirmed | first evaluation%s | final evaluation (check of the targeted property; further checks only where it misses) | change | needs |' % (' (blind, frozen checks)' if 1 < r < 6 else ''))
    print('|---|---|---|---|---|---|---|')
    for x in rs:
        first = fmt(x['first'])
        print('| %s | %s | %s | %s | %s | %s | %s |' % (x['seed'], x['prop'], x['ok'], first, fmt(x['final']), x['what'], x['needs']))
    nf = sum(1 for x in rs if x['first'])
    nl = sum(1 for x in rs if x['final'])
    no = sum(1 for x in rs if x['own'])
    print()
    print('Round %d: first evaluation caught %d of %d; final checks catch %d of %d (%d by the check of the targeted property).' % (r, nf, len(rs), nl, len(rs), no))
    print()
missed = [x['seed'] for x in rows if not x['final']]
print('All rounds: %d seeded changes, %d caught by the final checks, missed: %s.' % (len(rows), len(rows) - len(missed), ', '.join(missed) if missed else 'none'))

#!/usr/bin/env python3
"""Runs the checks against behaviour-preserving changes: every check must stay quiet (exit 0, no VIOLATION).
usage: neutral_eval.py <id> <patch.diff> <checks,comma>   -> /verif/seeded/neutral/<id>/{patch.diff,meta.json}"""
import json, os, re, shutil, subprocess, sys, time
ENV = dict(os.environ, GOFLAGS="-mod=mod", GOPROXY="off", GOSUMDB="off", GOTOOLCHAIN="local")
def sh(cmd, cwd=None, timeout=7200):
    p = subprocess.run(cmd, shell=True, cwd=cwd, env=ENV, capture_output=True, text=True, timeout=timeout)
    return p.returncode, p.stdout + p.stderr
def main():
    nid, patch, checks = sys.argv[1:4]
    patch = os.path.abspath(patch)
    repo, out = "/tmp/seedwt/" + nid, "/tmp/seedout/" + nid
    sh("rm -rf %s %s; git worktree prune" % (repo, out), cwd="/repo")
    os.makedirs(out, exist_ok=True)
    rc, o = sh("git worktree add -q --detach %s HEAD" % repo, cwd="/repo")
    meta = {"id": nid, "kind": "behaviour-preserving change written by an independent sub-agent (only the source area was given)", "at": time.strftime("%Y-%m-%d %H:%M:%S"),
            "repo_commit": sh("git rev-parse --short HEAD", cwd="/repo")[1].strip(), "checks_run": checks.split(",")}
    try:
        rc, o = sh("git apply %s" % patch, cwd=repo)
        if rc != 0:
            rc, o = sh("git apply --3way %s && git reset -q" % patch, cwd=repo)
            meta["patch_applied_with_3way_merge"] = rc == 0
        if rc != 0:
            meta["error"] = "patch does not apply: " + o[-300:]
        else:
            rc, o = sh("go build ./... && go test -vet=off -count=1 ./...", cwd=repo)
            meta["existing_tests_pass_with_change"] = rc == 0
            ENV["VERIF_REPO"], ENV["VERIF_OUT"] = repo, out
            res = {}
            for c in checks.split(","):
                t0 = time.time()
                rc, o = sh("./check %s quick" % c, cwd="/verif")
                viol = [l for l in o.splitlines() if l.startswith("VIOLATION")]
                detail = [l.strip()[:300] for l in o.splitlines() if l.startswith("  case=")]
                res[c] = {"exit": rc, "violations": len(viol), "first_cases": detail[:3], "summary": [l for l in o.splitlines() if l.startswith("SUMMARY")][-1:],
                          "tool_notes": [l[:300] for l in o.splitlines() if l.startswith("TOOL-NOTE")][:3], "wall_s": round(time.time() - t0, 1)}
            meta["results"] = res
            meta["alarms"] = [c for c, r in res.items() if r["exit"] != 0 or r["violations"]]
    finally:
        sh("git worktree remove --force %s" % repo, cwd="/repo")
        sh("rm -rf %s" % out)
    d = "/verif/seeded/neutral/" + nid
    os.makedirs(d, exist_ok=True)
    if os.path.abspath(patch) != os.path.abspath(d + "/patch.diff"):
        shutil.copy(patch, d + "/patch.diff")
    # NEUTRAL_OUT: keep the earlier full evaluation and store this (partial) one next to it
    json.dump(meta, open(d + "/" + os.environ.get("NEUTRAL_OUT", "meta.json"), "w"), indent=1)
    print(nid, "tests_pass=%s" % meta.get("existing_tests_pass_with_change"), "alarms=%s" % meta.get("alarms"), meta.get("error", ""))
if __name__ == "__main__":
    main()

#!/bin/bash
# usage: seed_batch3.sh <dir> <tag> "<ids>" "<checks>"   files <dir>/<ID>.mut{A,B}.* -> seeds <ID>-<tag>A / <ID>-<tag>B
dir=$1; tag=$2
for id in $3; do
  for m in A B; do
    d=$dir/$id.mut$m.diff; t=$dir/$id.mut$m.demo_test.go
    [ -f "$d" ] && [ -f "$t" ] || { echo "$id $tag$m: missing files"; continue; }
    checks="$4"; [ -z "$checks" ] && checks=$id
    python3 /verif/tools/try_seed.py $id-$tag$m $id $d $t "$checks" > $dir/$id.$tag$m.result.json 2>&1
    python3 - "$id-$tag$m" $dir/$id.$tag$m.result.json <<'PY'
import json,sys
try:
    txt=open(sys.argv[2]).read(); m=json.loads(txt[txt.index('{'):])
    print(sys.argv[1], "confirmed=%s/%s/%s"%(m.get("demo_passes_without_change"),m.get("existing_tests_pass_with_change"),m.get("demo_fails_with_change")), "detected_by=",m.get("detected_by"), {c:(r["violations"],r["assertions"][:3]) for c,r in m.get("results",{}).items() if r["exit"]==1}, m.get("error",""))
except Exception as e:
    print(sys.argv[1], "ERROR", e, open(sys.argv[2]).read()[-300:])
PY
  done
done

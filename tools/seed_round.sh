#!/bin/bash
# usage: seed_round.sh <round-number> "<ids>" <log-name>
# takes /tmp/seedgen<r>/out/<ID>.mut{A,B}.* into seeded/_incoming<r>, fills seed_desc.json from the .txt files
# (a short description can be put in by hand later), evaluates each seed with the check of its own property
r=$1; src=/tmp/seedgen$r/out; dst=/verif/seeded/_incoming$r; mkdir -p $dst
cd /verif
for id in $2; do
  cp $src/$id.mut?.diff $src/$id.mut?.demo_test.go $src/$id.mut?.txt $dst/ 2>/dev/null
  [ -f $src/$id.remarks.txt ] && cp $src/$id.remarks.txt $dst/
  python3 - $id $r <<'PY'
import json,sys,os
id,r=sys.argv[1:3]; p='/verif/tools/seed_desc.json'; d=json.load(open(p))
for m in 'AB':
    f='/verif/seeded/_incoming%s/%s.mut%s.txt'%(r,id,m)
    if not os.path.exists(f): continue
    t=' '.join(open(f).read().split())
    k='%s-r%s%s'%(id,r,m)
    if k not in d: d[k]={"what":t[:300],"needs":"see the change"}
json.dump(d,open(p,'w'),indent=1)
PY
done
bash /verif/tools/seed_batch3.sh $dst r$r "$2" "" > /tmp/seedgen$r/eval-$3.log 2>&1

package vm

import (
	"regexp"
)

func registerMisc(vm *VM) {
	I := vm.intrinsics
	I["regexp.MustCompile"] = func(vm *VM, _ *frame, a []Value) Value {
		s, ok := a[0].(string)
		if !ok {
			vmErr("regexp.MustCompile on symbolic pattern")
		}
		re, err := regexp.Compile(s)
		if err != nil {
			vm.goPanic("regexp: Compile(" + s + "): " + err.Error())
		}
		return vm.newCell(&Native{Kind: "regexp", V: re})
	}
	I["(*regexp.Regexp).FindStringSubmatch"] = func(vm *VM, _ *frame, a []Value) Value {
		p := a[0].(*Value)
		if p == nil {
			vm.goPanic("runtime error: invalid memory address or nil pointer dereference (nil *Regexp)")
		}
		re := (*p).(*Native).V.(*regexp.Regexp)
		if s, ok := a[1].(string); ok {
			m := re.FindStringSubmatch(s)
			if m == nil {
				return Slice(nil)
			}
			out := make(Slice, len(m))
			for i, x := range m {
				out[i] = x
			}
			return out
		}
		return vm.symRegexSubmatch(re, a[1])
	}
	I["(*regexp.Regexp).MatchString"] = func(vm *VM, _ *frame, a []Value) Value {
		p := a[0].(*Value)
		re := (*p).(*Native).V.(*regexp.Regexp)
		s, ok := a[1].(string)
		if !ok {
			vmErr("MatchString on symbolic string")
		}
		return re.MatchString(s)
	}
}


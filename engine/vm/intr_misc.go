package vm

import (
	"encoding/json"
	"go/types"
	"regexp"
	"strings"
)

func registerMisc(vm *VM) {
	I := vm.intrinsics
	I["encoding/json.Marshal"] = func(vm *VM, _ *frame, a []Value) Value {
		ifc, ok := a[0].(Iface)
		if !ok || ifc.T == nil {
			return Tuple{&JSONBlob{}, Iface{}}
		}
		// a plain Go string (no MarshalJSON method on its type): the exact text encoding
		if b, isB := ifc.T.Underlying().(*types.Basic); isB && b.Info()&types.IsString != 0 && !vm.hasMethod(ifc.T, "MarshalJSON") && !vm.hasMethod(ifc.T, "MarshalText") {
			switch ifc.V.(type) {
			case string, *SymStr:
				q := vm.jsonQuote(ifc.V)
				if hasDec(atomsOf(q)) {
					return Tuple{&SymBytes{S: q}, Iface{}}
				}
				return Tuple{Slice(strBytes(q)), Iface{}}
			}
		}
		return Tuple{&JSONBlob{T: ifc.T, V: copyVal(ifc.V)}, Iface{}}
	}
	I["encoding/json.Unmarshal"] = func(vm *VM, _ *frame, a []Value) Value {
		blob, ok := a[0].(*JSONBlob)
		if !ok {
			if sb, isSB := a[0].(*SymBytes); isSB {
				if o, isO := sb.S.(*Opaque); isO && o.Blob != nil {
					blob, ok = o.Blob, true
				}
			}
		}
		if !ok {
			// JSON text (concrete characters and decimal renderings) decoded into a *string
			if tgt, isI := a[1].(Iface); isI && tgt.T != nil {
				if pt, isP := tgt.T.Underlying().(*types.Pointer); isP {
					if bt, isB := pt.Elem().Underlying().(*types.Basic); isB && bt.Info()&types.IsString != 0 {
						if txt, okT := vm.bytesAsText(a[0]); okT {
							dec, err := vm.jsonDecodeString(txt)
							if err != "" {
								ep := vm.Pkgs["errors"]
								if ep == nil {
									vmErr("errors package not loaded")
								}
								cell := vm.newCell(Struct{err})
								return Iface{T: typesPointer(ep.Type("errorString").Type()), V: cell}
							}
							vm.store(tgt.V.(*Value), dec)
							return Iface{}
						}
					}
				}
			}
			vmErr("json.Unmarshal of bytes that do not come from json.Marshal (%T)", a[0])
		}
		target, ok := a[1].(Iface)
		if !ok || target.T == nil {
			vmErr("json.Unmarshal into a nil target")
		}
		pt, isPtr := target.T.Underlying().(*types.Pointer)
		if !isPtr {
			vmErr("json.Unmarshal into a non-pointer")
		}
		if blob.T == nil {
			vmErr("json.Unmarshal: document of unknown type")
		}
		tp, _ := target.V.(*Value)
		if tp == nil {
			vmErr("json.Unmarshal into a nil pointer")
		}
		vm.jsonDecodeInto(tp, pt.Elem(), blob.V, blob.T)
		return Iface{}
	}
	I["regexp.MustCompile"] = func(vm *VM, _ *frame, a []Value) Value {
		s, ok := a[0].(string)
		if !ok {
			vmErr("regexp.MustCompile on symbolic pattern")
		}
		re, err := regexp.Compile(s)
		if err != nil {
			vm.goPanic("regexp: Compile(" + s + "): " + err.Error())
		}
		return vm.newCell(&Native{Kind: "regexp", V: re})
	}
	I["(*regexp.Regexp).FindStringSubmatch"] = func(vm *VM, _ *frame, a []Value) Value {
		p := a[0].(*Value)
		if p == nil {
			vm.goPanic("runtime error: invalid memory address or nil pointer dereference (nil *Regexp)")
		}
		re := (*p).(*Native).V.(*regexp.Regexp)
		if s, ok := a[1].(string); ok {
			m := re.FindStringSubmatch(s)
			if m == nil {
				return Slice(nil)
			}
			out := make(Slice, len(m))
			for i, x := range m {
				out[i] = x
			}
			return out
		}
		return vm.symRegexSubmatch(re, a[1])
	}
	I["(*regexp.Regexp).MatchString"] = func(vm *VM, _ *frame, a []Value) Value {
		p := a[0].(*Value)
		re := (*p).(*Native).V.(*regexp.Regexp)
		s, ok := a[1].(string)
		if !ok {
			m := vm.symRegexSubmatch(re, a[1]).(Slice)
			return m != nil
		}
		return re.MatchString(s)
	}
}


func (vm *VM) hasMethod(t types.Type, name string) bool {
	ms := vm.Prog.MethodSets.MethodSet(t)
	for i := 0; i < ms.Len(); i++ {
		if ms.At(i).Obj().Name() == name {
			return true
		}
	}
	return false
}

// bytesAsText views a []byte value as a string value (concrete, SymStr or SymBytes).
func (vm *VM) bytesAsText(v Value) (Value, bool) {
	switch x := v.(type) {
	case *SymBytes:
		return x.S, true
	case Slice:
		return strFromBytes([]Value(x)), true
	}
	return nil, false
}

// jsonDecodeString decodes a JSON string literal whose text consists of concrete
// characters and decimal atoms (digits pass through JSON unchanged): the atoms are
// replaced by private-use placeholders, the text is decoded natively, and the
// placeholders are put back. Returns a non-empty error text when the JSON is invalid.
func (vm *VM) jsonDecodeString(txt Value) (Value, string) {
	as := atomsOf(txt)
	var sb strings.Builder
	var decs []Atom
	for _, a := range as {
		switch a.Kind {
		case aConc:
			sb.WriteString(a.S)
		case aDec:
			sb.WriteRune(rune(0xE000 + len(decs)))
			decs = append(decs, a)
		default:
			vmErr("json.Unmarshal of a text with symbolic bytes into a string is not modelled")
		}
	}
	var out string
	if err := json.Unmarshal([]byte(sb.String()), &out); err != nil {
		return nil, err.Error()
	}
	var res []Atom
	cur := ""
	for _, r := range out {
		if r >= 0xE000 && int(r-0xE000) < len(decs) {
			if cur != "" {
				res = append(res, Atom{Kind: aConc, S: cur})
				cur = ""
			}
			res = append(res, decs[r-0xE000])
			continue
		}
		cur += string(r)
	}
	if cur != "" {
		res = append(res, Atom{Kind: aConc, S: cur})
	}
	return mkStr(res), ""
}

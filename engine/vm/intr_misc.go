package vm

import (
	"go/types"
	"regexp"
)

func registerMisc(vm *VM) {
	I := vm.intrinsics
	I["encoding/json.Marshal"] = func(vm *VM, _ *frame, a []Value) Value {
		ifc, ok := a[0].(Iface)
		if !ok || ifc.T == nil {
			return Tuple{&JSONBlob{}, Iface{}}
		}
		// a plain Go string (no MarshalJSON method on its type): the exact text encoding
		if b, isB := ifc.T.Underlying().(*types.Basic); isB && b.Info()&types.IsString != 0 && !vm.hasMethod(ifc.T, "MarshalJSON") && !vm.hasMethod(ifc.T, "MarshalText") {
			switch ifc.V.(type) {
			case string, *SymStr:
				q := vm.jsonQuote(ifc.V)
				if hasDec(atomsOf(q)) {
					return Tuple{&SymBytes{S: q}, Iface{}}
				}
				return Tuple{Slice(strBytes(q)), Iface{}}
			}
		}
		return Tuple{&JSONBlob{T: ifc.T, V: copyVal(ifc.V)}, Iface{}}
	}
	I["encoding/json.Unmarshal"] = func(vm *VM, _ *frame, a []Value) Value {
		blob, ok := a[0].(*JSONBlob)
		if !ok {
			if sb, isSB := a[0].(*SymBytes); isSB {
				if o, isO := sb.S.(*Opaque); isO && o.Blob != nil {
					blob, ok = o.Blob, true
				}
			}
		}
		if !ok {
			vmErr("json.Unmarshal of bytes that do not come from json.Marshal (%T)", a[0])
		}
		target, ok := a[1].(Iface)
		if !ok || target.T == nil {
			vmErr("json.Unmarshal into a nil target")
		}
		pt, isPtr := target.T.Underlying().(*types.Pointer)
		if !isPtr {
			vmErr("json.Unmarshal into a non-pointer")
		}
		if blob.T == nil {
			vmErr("json.Unmarshal: document of unknown type")
		}
		tp, _ := target.V.(*Value)
		if tp == nil {
			vmErr("json.Unmarshal into a nil pointer")
		}
		vm.jsonDecodeInto(tp, pt.Elem(), blob.V, blob.T)
		return Iface{}
	}
	I["regexp.MustCompile"] = func(vm *VM, _ *frame, a []Value) Value {
		s, ok := a[0].(string)
		if !ok {
			vmErr("regexp.MustCompile on symbolic pattern")
		}
		re, err := regexp.Compile(s)
		if err != nil {
			vm.goPanic("regexp: Compile(" + s + "): " + err.Error())
		}
		return vm.newCell(&Native{Kind: "regexp", V: re})
	}
	I["(*regexp.Regexp).FindStringSubmatch"] = func(vm *VM, _ *frame, a []Value) Value {
		p := a[0].(*Value)
		if p == nil {
			vm.goPanic("runtime error: invalid memory address or nil pointer dereference (nil *Regexp)")
		}
		re := (*p).(*Native).V.(*regexp.Regexp)
		if s, ok := a[1].(string); ok {
			m := re.FindStringSubmatch(s)
			if m == nil {
				return Slice(nil)
			}
			out := make(Slice, len(m))
			for i, x := range m {
				out[i] = x
			}
			return out
		}
		return vm.symRegexSubmatch(re, a[1])
	}
	I["(*regexp.Regexp).MatchString"] = func(vm *VM, _ *frame, a []Value) Value {
		p := a[0].(*Value)
		re := (*p).(*Native).V.(*regexp.Regexp)
		s, ok := a[1].(string)
		if !ok {
			m := vm.symRegexSubmatch(re, a[1]).(Slice)
			return m != nil
		}
		return re.MatchString(s)
	}
}


func (vm *VM) hasMethod(t types.Type, name string) bool {
	ms := vm.Prog.MethodSets.MethodSet(t)
	for i := 0; i < ms.Len(); i++ {
		if ms.At(i).Obj().Name() == name {
			return true
		}
	}
	return false
}

package vm

import (
	"fmt"
	"go/token"
	"go/types"
	"math/big"
	"strings"

	"github.com/formancehq/numscript/zzverif/smt"
	"golang.org/x/tools/go/ssa"
)

type Intrinsic func(vm *VM, fr *frame, args []Value) Value

type Decision struct {
	Taken  bool
	Forced bool // only one side was feasible: no alternative queued, nothing asserted
	Pin    *big.Int // not a branch: a factor of a symbolic product pinned to this witness value
}

type undoEntry struct {
	p   *Value
	old Value
	f   func()
	m   *Map // set for map mutations (write-confinement monitor)
}

// Finding is a reachable assertion failure or panic together with a model.
type Finding struct {
	Regions map[string]bool // harness-declared regions the model lies in
	Kind   string // "assert" | "panic"
	ID     string // assertion id or panic site
	Msg    string
	Model  map[string]string
	Stack  []string
	Notes  []string
	Path   []Decision
	Replay string // filled by the driver
}

type PathStats struct {
	Steps int
}

type VM struct {
	Prog        *ssa.Program
	Pkgs        map[string]*ssa.Package
	bigIntUnder types.Type
	bigRatUnder types.Type
	bigIntType  types.Type
	bigRatType  types.Type

	globals  map[*ssa.Global]*Value
	globalCells map[*Value]*ssa.Global
	frozen      map[*Value]bool
	frozenMaps  map[*Map]bool
	frozenMark  int
	frozenOn    bool
	initDone map[*ssa.Package]bool
	RepoPath string // module path prefix whose package inits are run eagerly

	undo []undoEntry

	Solver *smt.Solver

	// per-path state
	prefix    []Decision
	pos       int
	trace     []Decision
	pending   [][]Decision // alternatives discovered on this path
	pcCount   int
	steps     int
	MaxSteps  int
	stack     []string
	notes     []string
	symCount  map[string]int
	declared  map[string]symDecl // symbolic inputs created on this path (name -> kind)
	Findings  []Finding
	Reached   map[string]int
	Asserted  map[string]int
	unknowns  int
	mapIDs    int
	syncMaps  map[*Value]*Map
	onceDone  map[*Value]bool
	pools     map[*Value][]Value
	curBuilder Value
	permUsed  int
	// PermuteBudget bounds how many ranged maps per path may take a non-insertion order (0 = no bound)
	PermuteBudget int
	mapOrder  bool // symbolic map iteration order
	FnSeen    map[string]bool
	pathNotes map[string]string
	Extra     map[string]interface{} // per-check hooks (stubs, callee replacement)
	hasAbort  bool
	// environment of the CLI stubs (per path)
	hazardSeen     bool
	onceSyms       map[string]*Value
	stdout, stderr []Value
	stdin          Value
	vfs            map[string]Value
	RecordStubs map[string]bool    // functions replaced by "record the arguments, return zero values"
	stubLog     map[string][]Value // per path
	regions   map[string]*smt.Term

	intrinsics map[string]Intrinsic
	Verbose    bool

	// concrete mode (translator validation): symbolic inputs take these values
	ConcreteValues map[string]string
	ConcFailed     []string
	ConcNotes      []string
	ConcReached    []string

	// path sampling: models of completed paths
	SampleModels int
	Samples      []map[string]string
}

type symDecl struct {
	Kind string // "int" | "bool" | "byte" | "mint"
}

type frame struct {
	fn     *ssa.Function
	locals map[ssa.Value]Value
	env    []Value
	defers []func()
	block  *ssa.BasicBlock
	prev   *ssa.BasicBlock
	result Value
}

func New(prog *ssa.Program, pkgs []*ssa.Package, repoPath string) *VM {
	vm := &VM{Prog: prog, Pkgs: map[string]*ssa.Package{}, globals: map[*ssa.Global]*Value{}, globalCells: map[*Value]*ssa.Global{},
		initDone: map[*ssa.Package]bool{}, RepoPath: repoPath, MaxSteps: 2_000_000,
		Reached: map[string]int{}, Asserted: map[string]int{}, FnSeen: map[string]bool{},
		Extra: map[string]interface{}{}}
	for _, p := range prog.AllPackages() {
		vm.Pkgs[p.Pkg.Path()] = p
	}
	if bp := vm.Pkgs["math/big"]; bp != nil {
		vm.bigIntType = bp.Type("Int").Type()
		vm.bigRatType = bp.Type("Rat").Type()
		vm.bigIntUnder = vm.bigIntType.Underlying()
		vm.bigRatUnder = vm.bigRatType.Underlying()
	}
	vm.intrinsics = map[string]Intrinsic{}
	registerIntrinsics(vm)
	return vm
}

// ---------------------------------------------------------------- memory

func (vm *VM) store(p *Value, v Value) {
	if p == nil {
		vm.goPanic("runtime error: invalid memory address or nil pointer dereference")
	}
	vm.undo = append(vm.undo, undoEntry{p: p, old: *p})
	*p = v
}

func (vm *VM) load(p *Value) Value {
	if p == nil {
		vm.goPanic("runtime error: invalid memory address or nil pointer dereference")
	}
	return copyVal(*p)
}

func (vm *VM) undoTo(mark int) {
	for i := len(vm.undo) - 1; i >= mark; i-- {
		e := vm.undo[i]
		if e.f != nil {
			e.f()
		} else {
			*e.p = e.old
		}
	}
	vm.undo = vm.undo[:mark]
}

func (vm *VM) newCell(v Value) *Value {
	p := new(Value)
	*p = v
	return p
}

func (vm *VM) global(g *ssa.Global) *Value {
	if p, ok := vm.globals[g]; ok {
		return p
	}
	p := vm.newCell(vm.zero(g.Type().(*types.Pointer).Elem()))
	if g.Pkg != nil && g.Pkg.Pkg.Path() == "os" {
		switch g.Name() {
		case "Stdin", "Stdout", "Stderr":
			// distinct opaque *os.File objects the I/O intrinsics recognise
			*p = vm.newCell(&Native{Kind: strings.ToLower(g.Name())})
		}
	}
	vm.globals[g] = p
	vm.globalCells[p] = g
	// creation of the cell itself must be undone too: otherwise a later path would
	// observe a zeroed-but-"initialised" global.
	vm.undo = append(vm.undo, undoEntry{f: func() { delete(vm.globals, g) }})
	return p
}

// ---------------------------------------------------------------- maps

func (vm *VM) newMap() *Map {
	vm.mapIDs++
	return &Map{id: vm.mapIDs}
}

func (vm *VM) keyEq(a, b Value) bool {
	switch x := a.(type) {
	case string:
		if y, ok := b.(string); ok {
			return x == y
		}
		if _, ok := b.(*SymStr); ok {
			return vm.symKeyEq(a, b)
		}
		return false
	case *SymStr:
		switch b.(type) {
		case string, *SymStr:
			return vm.symKeyEq(a, b)
		}
		return false
	case int64:
		y, ok := b.(int64)
		return ok && x == y
	case bool:
		y, ok := b.(bool)
		return ok && x == y
	case Iface:
		y, ok := b.(Iface)
		if !ok {
			return false
		}
		if x.T == nil || y.T == nil {
			return x.T == nil && y.T == nil
		}
		return types.Identical(x.T, y.T) && vm.keyEq(x.V, y.V)
	case Struct:
		y, ok := b.(Struct)
		if !ok || len(x) != len(y) {
			return false
		}
		for i := range x {
			if !vm.keyEq(x[i], y[i]) {
				return false
			}
		}
		return true
	case *Value:
		y, ok := b.(*Value)
		return ok && x == y
	}
	vmErr("map key of unsupported kind %T (%s)", a, describe(a))
	return false
}

func (vm *VM) concreteKey(k Value) Value {
	switch x := k.(type) {
	case *smt.Term:
		vmErr("symbolic map key %s", describe(x))
	case *Opaque:
		vmErr("opaque string used as a map key (%s)", x.What)
	}
	return k
}

// symKeyEq decides equality of string keys when one side is symbolic (forks).
func (vm *VM) symKeyEq(a, b Value) bool {
	c, ok := strEq(a, b)
	if !ok {
		vmErr("cannot compare map keys %s and %s", describe(a), describe(b))
	}
	return vm.Decide(c)
}

func (vm *VM) mapLookup(m *Map, k Value) (Value, bool) {
	if m == nil {
		return nil, false
	}
	k = vm.concreteKey(k)
	for _, e := range m.entries {
		if vm.keyEq(e.K, k) {
			return e.V, true
		}
	}
	return nil, false
}

func (vm *VM) mapSet(m *Map, k, v Value) {
	if m == nil {
		vm.goPanic("assignment to entry in nil map")
	}
	k = vm.concreteKey(k)
	old := m.entries
	vm.undo = append(vm.undo, undoEntry{f: func() { m.entries = old }, m: m})
	ne := make([]mapEntry, len(old), len(old)+1)
	copy(ne, old)
	for i := range ne {
		if vm.keyEq(ne[i].K, k) {
			ne[i].V = v
			m.entries = ne
			return
		}
	}
	m.entries = append(ne, mapEntry{k, v})
}

func (vm *VM) mapDelete(m *Map, k Value) {
	if m == nil {
		return
	}
	k = vm.concreteKey(k)
	old := m.entries
	for i := range old {
		if vm.keyEq(old[i].K, k) {
			vm.undo = append(vm.undo, undoEntry{f: func() { m.entries = old }, m: m})
			ne := make([]mapEntry, 0, len(old)-1)
			ne = append(ne, old[:i]...)
			ne = append(ne, old[i+1:]...)
			m.entries = ne
			return
		}
	}
}

// ---------------------------------------------------------------- panics

func (vm *VM) goPanic(msg string) {
	st := make([]string, len(vm.stack))
	copy(st, vm.stack)
	panic(GoPanic{Msg: msg, Stack: st})
}

func (vm *VM) goPanicVal(v Value) {
	st := make([]string, len(vm.stack))
	copy(st, vm.stack)
	msg := describe(v)
	if i, ok := v.(Iface); ok && i.T != nil {
		if s, ok := i.V.(string); ok {
			msg = s
		}
	}
	panic(GoPanic{Msg: "panic: " + msg, Val: v, Stack: st})
}

// ---------------------------------------------------------------- decisions

// assume adds c to the path condition (no feasibility check).
func (vm *VM) assume(c *smt.Term) {
	if c.Op == smt.OpBoolConst {
		if !c.B {
			panic(pathAbort{"assumption is false"})
		}
		return
	}
	vm.Solver.Assert(c)
	vm.pcCount++
}

// Decide resolves a symbolic branch condition.
func (vm *VM) Decide(c *smt.Term) bool {
	if c.Op == smt.OpBoolConst {
		return c.B
	}
	if vm.pos < len(vm.prefix) {
		d := vm.prefix[vm.pos]
		vm.pos++
		vm.trace = append(vm.trace, d)
		if !d.Forced {
			if d.Taken {
				vm.assume(c)
			} else {
				vm.assume(smt.Not(c))
			}
		}
		return d.Taken
	}
	vm.pos++
	rt := vm.Solver.CheckWith(c, false)
	if rt == smt.Unknown {
		vm.unknowns++
	}
	if rt == smt.Unsat {
		// the path condition is satisfiable, so the negation must be feasible
		vm.trace = append(vm.trace, Decision{Taken: false, Forced: true})
		return false
	}
	rf := vm.Solver.CheckWith(smt.Not(c), false)
	if rf == smt.Unknown {
		vm.unknowns++
	}
	if rf == smt.Unsat {
		vm.trace = append(vm.trace, Decision{Taken: true, Forced: true})
		return true
	}
	// both sides (possibly) feasible: take true now, queue false
	alt := make([]Decision, len(vm.trace)+1)
	copy(alt, vm.trace)
	alt[len(vm.trace)] = Decision{Taken: false}
	vm.pending = append(vm.pending, alt)
	vm.trace = append(vm.trace, Decision{Taken: true})
	vm.assume(c)
	return true
}

// Truth turns a bool-ish value into a Go bool, forking when symbolic.
func (vm *VM) Truth(v Value) bool {
	switch x := v.(type) {
	case bool:
		return x
	case *smt.Term:
		return vm.Decide(x)
	}
	vmErr("Truth: not a bool: %T", v)
	return false
}

// ConcretizeInt forks over the values lo..hi of an integer term.
func (vm *VM) ConcretizeInt(t *smt.Term, lo, hi int64) int64 {
	if t.Op == smt.OpIntConst {
		return t.K.Int64()
	}
	for k := lo; k < hi; k++ {
		if vm.Decide(smt.Eq(t, smt.Int64(k))) {
			return k
		}
	}
	vm.assume(smt.Eq(t, smt.Int64(hi)))
	return hi
}

// ---------------------------------------------------------------- symbolic inputs

func (vm *VM) freshName(base string) string {
	base = sanitize(base)
	if vm.symCount == nil {
		vm.symCount = map[string]int{}
	}
	n := vm.symCount[base]
	vm.symCount[base] = n + 1
	if n == 0 {
		return base
	}
	return fmt.Sprintf("%s__%d", base, n)
}

func sanitize(s string) string {
	var sb strings.Builder
	for _, c := range s {
		switch {
		case c >= 'a' && c <= 'z', c >= 'A' && c <= 'Z', c >= '0' && c <= '9', c == '_':
			sb.WriteRune(c)
		default:
			sb.WriteByte('_')
		}
	}
	r := sb.String()
	if r == "" || (r[0] >= '0' && r[0] <= '9') {
		r = "v_" + r
	}
	return r
}

func (vm *VM) SymInt(name string) *smt.Term {
	n := vm.freshName(name)
	vm.declared[n] = symDecl{"int"}
	if vm.ConcreteValues != nil {
		k := new(big.Int)
		if s, ok := vm.ConcreteValues[n]; ok {
			k.SetString(s, 10)
		}
		return smt.Int(k)
	}
	return smt.Var(n, smt.SInt)
}

func (vm *VM) SymBool(name string) *smt.Term {
	n := vm.freshName(name)
	vm.declared[n] = symDecl{"bool"}
	if vm.ConcreteValues != nil {
		s, ok := vm.ConcreteValues[n]
		return smt.Bool(ok && s != "0")
	}
	return smt.Var(n, smt.SBool)
}

// ---------------------------------------------------------------- calls

func (vm *VM) lazyInit(pkg *ssa.Package) {
	if pkg == nil || vm.initDone[pkg] {
		return
	}
	vm.initDone[pkg] = true
	vm.undo = append(vm.undo, undoEntry{f: func() { delete(vm.initDone, pkg) }})
	path := pkg.Pkg.Path()
	if !initAllowed(path) {
		return
	}
	initFn := pkg.Func("init")
	if initFn == nil || initFn.Blocks == nil {
		return
	}
	vm.runFunction(initFn, nil, nil)
}

// initAllowed: package inits that are interpreted. Everything else is reached
// only through intrinsics or has no state the encoded code reads.
func initAllowed(path string) bool {
	if strings.HasPrefix(path, RepoModule) {
		return !strings.HasSuffix(path, "/internal/parser/antlr")
	}
	switch path {
	case "strconv", "math/bits", "slices", "golang.org/x/exp/maps", "golang.org/x/exp/slices", "unicode/utf8", "cmp":
		return true
	}
	return false
}

// lazyInitFromImport: repo packages are initialised in import order; other
// packages wait until one of their functions or globals is first used.
func (vm *VM) lazyInitFromImport(pkg *ssa.Package) {
	if strings.HasPrefix(pkg.Pkg.Path(), RepoModule) {
		vm.lazyInit(pkg)
	}
}

func (vm *VM) Call(fnv Value, args []Value) Value {
	switch f := fnv.(type) {
	case *ssa.Function:
		if f == nil {
			vm.goPanic("runtime error: invalid memory address or nil pointer dereference (nil func)")
		}
		return vm.callFunc(f, nil, args)
	case *Closure:
		if f == nil {
			vm.goPanic("runtime error: invalid memory address or nil pointer dereference (nil func)")
		}
		return vm.callFunc(f.Fn, f.Env, args)
	}
	vmErr("call of non-function %T", fnv)
	return nil
}

func (vm *VM) intrinsicFor(fn *ssa.Function) Intrinsic {
	if in, ok := vm.intrinsics[fn.String()]; ok {
		return in
	}
	if o := fn.Origin(); o != nil {
		if in, ok := vm.intrinsics[o.String()]; ok {
			return in
		}
	}
	return nil
}

func (vm *VM) callFunc(fn *ssa.Function, env []Value, args []Value) Value {
	if in := vm.intrinsicFor(fn); in != nil {
		return in(vm, nil, args)
	}
	if vm.RecordStubs[fn.String()] {
		if vm.stubLog == nil {
			vm.stubLog = map[string][]Value{}
		}
		rec := make(Slice, len(args))
		for i, a := range args {
			pt := fn.Params[i].Type()
			if _, isI := pt.Underlying().(*types.Interface); isI {
				rec[i] = copyVal(a)
			} else {
				rec[i] = Iface{T: pt, V: copyVal(a)}
			}
		}
		vm.stubLog[fn.String()] = append(vm.stubLog[fn.String()], rec)
		res := fn.Signature.Results()
		switch res.Len() {
		case 0:
			return nil
		case 1:
			return vm.zero(res.At(0).Type())
		}
		return vm.zero(res)
	}
	if fn.Blocks == nil {
		vmErr("call of function without body: %s", fn.String())
	}
	if fn.Name() == "init" && fn.Pkg != nil && fn.Synthetic != "" && fn.Pkg.Func("init") == fn {
		// package initialiser called from an importing package's init
		vm.lazyInitFromImport(fn.Pkg)
		return nil
	}
	if fn.Pkg != nil {
		vm.lazyInit(fn.Pkg)
	}
	return vm.runFunction(fn, env, args)
}

func (vm *VM) runFunction(fn *ssa.Function, env []Value, args []Value) Value {
	if len(vm.stack) > 400 {
		vmErr("call depth exceeded in %s", fn.String())
	}
	vm.FnSeen[fn.String()] = true
	fr := &frame{fn: fn, locals: make(map[ssa.Value]Value, 16), env: env}
	for i, p := range fn.Params {
		fr.locals[p] = args[i]
	}
	for i, fv := range fn.FreeVars {
		fr.locals[fv] = env[i]
	}
	vm.stack = append(vm.stack, fn.String())
	defer func() { vm.stack = vm.stack[:len(vm.stack)-1] }()
	fr.block = fn.Blocks[0]
	for {
		next := vm.runBlock(fr)
		if next == nil {
			break
		}
		fr.prev = fr.block
		fr.block = next
	}
	return fr.result
}

func (vm *VM) posOf(instr ssa.Instruction) string {
	p := vm.Prog.Fset.Position(instr.Pos())
	if !p.IsValid() {
		return instr.Parent().String()
	}
	f := p.Filename
	if i := strings.LastIndex(f, "/"); i >= 0 {
		f = f[i+1:]
	}
	return fmt.Sprintf("%s:%d", f, p.Line)
}

// get resolves an operand.
func (vm *VM) get(fr *frame, v ssa.Value) Value {
	switch x := v.(type) {
	case *ssa.Const:
		return vm.constValue(x)
	case *ssa.Global:
		if x.Pkg != nil {
			vm.lazyInit(x.Pkg)
		}
		return vm.global(x)
	case *ssa.Function:
		return x
	case *ssa.Builtin:
		return x
	}
	if r, ok := fr.locals[v]; ok {
		return r
	}
	vmErr("get: no value for %s (%T) in %s", v.Name(), v, fr.fn.String())
	return nil
}

func (vm *VM) runBlock(fr *frame) *ssa.BasicBlock {
	for _, instr := range fr.block.Instrs {
		vm.steps++
		if vm.steps > vm.MaxSteps {
			vmErr("step budget exceeded (%d)", vm.MaxSteps)
		}
		switch in := instr.(type) {
		case *ssa.DebugRef:
		case *ssa.Phi:
			for i, pred := range fr.block.Preds {
				if pred == fr.prev {
					fr.locals[in] = vm.get(fr, in.Edges[i])
					break
				}
			}
		case *ssa.Alloc:
			fr.locals[in] = vm.newCell(vm.zero(in.Type().(*types.Pointer).Elem()))
		case *ssa.UnOp:
			fr.locals[in] = vm.unop(fr, in)
		case *ssa.BinOp:
			fr.locals[in] = vm.binop(in.Op, in.X.Type(), vm.get(fr, in.X), vm.get(fr, in.Y), in)
		case *ssa.Call:
			fr.locals[in] = vm.doCall(fr, &in.Call, in)
		case *ssa.ChangeInterface:
			fr.locals[in] = vm.get(fr, in.X)
		case *ssa.ChangeType:
			fr.locals[in] = vm.get(fr, in.X)
		case *ssa.Convert:
			fr.locals[in] = vm.convert(in.X.Type(), in.Type(), vm.get(fr, in.X))
		case *ssa.MakeInterface:
			fr.locals[in] = Iface{T: in.X.Type(), V: vm.get(fr, in.X)}
		case *ssa.Extract:
			fr.locals[in] = vm.get(fr, in.Tuple).(Tuple)[in.Index]
		case *ssa.Field:
			fr.locals[in] = copyVal(vm.get(fr, in.X).(Struct)[in.Field])
		case *ssa.FieldAddr:
			p := vm.get(fr, in.X).(*Value)
			if p == nil {
				vm.goPanic("runtime error: invalid memory address or nil pointer dereference (field " + vm.posOf(in) + ")")
			}
			s, ok := (*p).(Struct)
			if !ok {
				vmErr("FieldAddr on opaque value %s at %s", describe(*p), vm.posOf(in))
			}
			fr.locals[in] = &s[in.Field]
		case *ssa.Index:
			fr.locals[in] = vm.index(fr, in)
		case *ssa.IndexAddr:
			fr.locals[in] = vm.indexAddr(fr, in)
		case *ssa.Lookup:
			fr.locals[in] = vm.lookup(fr, in)
		case *ssa.MakeMap:
			fr.locals[in] = vm.newMap()
		case *ssa.MakeSlice:
			n := vm.concInt(vm.get(fr, in.Len), "make len")
			c := vm.concInt(vm.get(fr, in.Cap), "make cap")
			if n < 0 || c < n {
				vm.goPanic("runtime error: makeslice: len out of range")
			}
			el := in.Type().Underlying().(*types.Slice).Elem()
			s := make(Slice, n, c)
			for i := range s {
				s[i] = vm.zero(el)
			}
			fr.locals[in] = s
		case *ssa.MakeClosure:
			env := make([]Value, len(in.Bindings))
			for i, b := range in.Bindings {
				env[i] = vm.get(fr, b)
			}
			fr.locals[in] = &Closure{Fn: in.Fn.(*ssa.Function), Env: env}
		case *ssa.MapUpdate:
			m := vm.get(fr, in.Map).(*Map)
			vm.mapSet(m, vm.get(fr, in.Key), copyVal(vm.get(fr, in.Value)))
		case *ssa.Store:
			vm.store(vm.get(fr, in.Addr).(*Value), copyVal(vm.get(fr, in.Val)))
		case *ssa.Slice:
			fr.locals[in] = vm.sliceOp(fr, in)
		case *ssa.TypeAssert:
			fr.locals[in] = vm.typeAssert(fr, in)
		case *ssa.Range:
			fr.locals[in] = vm.rangeOp(fr, in)
		case *ssa.Next:
			fr.locals[in] = vm.nextOp(fr, in)
		case *ssa.Defer:
			fnv, args := vm.prepareCall(fr, &in.Call)
			fr.defers = append(fr.defers, func() { vm.Call(fnv, args) })
		case *ssa.RunDefers:
			for i := len(fr.defers) - 1; i >= 0; i-- {
				fr.defers[i]()
			}
			fr.defers = nil
		case *ssa.Panic:
			vm.goPanicVal(vm.get(fr, in.X))
		case *ssa.Return:
			switch len(in.Results) {
			case 0:
				fr.result = nil
			case 1:
				fr.result = vm.get(fr, in.Results[0])
			default:
				t := make(Tuple, len(in.Results))
				for i, r := range in.Results {
					t[i] = vm.get(fr, r)
				}
				fr.result = t
			}
			return nil
		case *ssa.Jump:
			return fr.block.Succs[0]
		case *ssa.If:
			if vm.Truth(vm.get(fr, in.Cond)) {
				return fr.block.Succs[0]
			}
			return fr.block.Succs[1]
		case *ssa.SliceToArrayPointer, *ssa.MultiConvert, *ssa.Go, *ssa.Select, *ssa.Send, *ssa.MakeChan:
			vmErr("unsupported instruction %T at %s", instr, vm.posOf(instr))
		default:
			vmErr("unknown instruction %T at %s", instr, vm.posOf(instr))
		}
	}
	vmErr("block fell through in %s", fr.fn.String())
	return nil
}

func (vm *VM) concInt(v Value, what string) int {
	switch x := v.(type) {
	case int64:
		return int(x)
	case *smt.Term:
		if x.Op == smt.OpIntConst {
			return int(x.K.Int64())
		}
		vmErr("symbolic integer where a concrete one is required (%s): %s", what, x.String())
	}
	vmErr("concInt: %T (%s)", v, what)
	return 0
}

func (vm *VM) prepareCall(fr *frame, c *ssa.CallCommon) (Value, []Value) {
	if c.IsInvoke() {
		recv := vm.get(fr, c.Value)
		ifc, ok := recv.(Iface)
		if !ok {
			vmErr("invoke on non-interface %T", recv)
		}
		if ifc.T == nil {
			vm.goPanic("runtime error: invalid memory address or nil pointer dereference (method " + c.Method.Name() + " on nil interface)")
		}
		fn := vm.lookupMethod(ifc.T, c.Method)
		args := make([]Value, 0, len(c.Args)+1)
		args = append(args, ifc.V)
		for _, a := range c.Args {
			args = append(args, vm.get(fr, a))
		}
		return fn, args
	}
	fnv := vm.get(fr, c.Value)
	args := make([]Value, len(c.Args))
	for i, a := range c.Args {
		args[i] = vm.get(fr, a)
	}
	return fnv, args
}

func (vm *VM) lookupMethod(t types.Type, m *types.Func) *ssa.Function {
	sel := vm.Prog.MethodSets.MethodSet(t).Lookup(m.Pkg(), m.Name())
	if sel == nil {
		vmErr("method %s not found on %s", m.Name(), t)
	}
	fn := vm.Prog.MethodValue(sel)
	if fn == nil {
		vmErr("no SSA method value for %s on %s", m.Name(), t)
	}
	return fn
}

func (vm *VM) doCall(fr *frame, c *ssa.CallCommon, site ssa.Instruction) Value {
	if b, ok := c.Value.(*ssa.Builtin); ok {
		args := make([]Value, len(c.Args))
		for i, a := range c.Args {
			args[i] = vm.get(fr, a)
		}
		return vm.builtin(fr, b, c, args)
	}
	fnv, args := vm.prepareCall(fr, c)
	return vm.Call(fnv, args)
}

func (vm *VM) builtin(fr *frame, b *ssa.Builtin, c *ssa.CallCommon, args []Value) Value {
	switch b.Name() {
	case "len":
		switch x := args[0].(type) {
		case string, *SymStr:
			return int64(strLen(x))
		case Slice:
			return int64(len(x))
		case Array:
			return int64(len(x))
		case *Map:
			if x == nil {
				return int64(0)
			}
			return int64(len(x.entries))
		case *Value: // pointer to array
			return int64(len((*x).(Array)))
		}
		vmErr("len of %T", args[0])
	case "cap":
		switch x := args[0].(type) {
		case Slice:
			return int64(cap(x))
		case Array:
			return int64(len(x))
		}
		vmErr("cap of %T", args[0])
	case "append":
		dst := args[0].(Slice)
		switch src := args[1].(type) {
		case Slice:
			if len(src) == 0 {
				return dst
			}
			if len(dst)+len(src) <= cap(dst) {
				// in-place: writes into shared backing must be undoable
				n := len(dst)
				dst = dst[:n+len(src)]
				for i, e := range src {
					vm.store(&dst[n+i], copyVal(e))
				}
				return dst
			}
			nd := make(Slice, len(dst), growCap(cap(dst), len(dst)+len(src)))
			copy(nd, dst)
			for _, e := range src {
				nd = append(nd, copyVal(e))
			}
			return nd
		case string, *SymStr:
			bs := strBytes(src)
			nd := make(Slice, len(dst), len(dst)+len(bs))
			copy(nd, dst)
			return append(nd, bs...)
		}
		vmErr("append of %T", args[1])
	case "copy":
		dst := args[0].(Slice)
		var src []Value
		switch s := args[1].(type) {
		case Slice:
			src = s
		case string, *SymStr:
			src = strBytes(s)
		}
		n := len(dst)
		if len(src) < n {
			n = len(src)
		}
		tmp := make([]Value, n)
		copy(tmp, src[:n])
		for i := 0; i < n; i++ {
			vm.store(&dst[i], copyVal(tmp[i]))
		}
		return int64(n)
	case "delete":
		vm.mapDelete(args[0].(*Map), args[1])
		return nil
	case "print", "println":
		return nil
	case "min", "max":
		t := c.Args[0].Type()
		acc := args[0]
		for _, a := range args[1:] {
			var less Value
			if b.Name() == "min" {
				less = vm.binop(token.LSS, t, a, acc, nil)
			} else {
				less = vm.binop(token.GTR, t, a, acc, nil)
			}
			if vm.Truth(less) {
				acc = a
			}
		}
		return acc
	case "recover":
		return Iface{}
	case "clear":
		if m, ok := args[0].(*Map); ok && m != nil {
			old := m.entries
			vm.undo = append(vm.undo, undoEntry{f: func() { m.entries = old }})
			m.entries = nil
		}
		return nil
	}
	vmErr("unsupported builtin %s", b.Name())
	return nil
}

func growCap(oldCap, need int) int {
	c := oldCap * 2
	if c < need {
		c = need
	}
	if c == 0 {
		c = 1
	}
	return c
}

func (vm *VM) index(fr *frame, in *ssa.Index) Value {
	x := vm.get(fr, in.X)
	i := vm.concInt(vm.get(fr, in.Index), "index")
	switch a := x.(type) {
	case Array:
		if i < 0 || i >= len(a) {
			vm.goPanic(fmt.Sprintf("runtime error: index out of range [%d] with length %d", i, len(a)))
		}
		return copyVal(a[i])
	case string, *SymStr:
		bs := strBytes(a)
		if i < 0 || i >= len(bs) {
			vm.goPanic(fmt.Sprintf("runtime error: index out of range [%d] with length %d", i, len(bs)))
		}
		return bs[i]
	}
	vmErr("Index on %T", x)
	return nil
}

func (vm *VM) indexAddr(fr *frame, in *ssa.IndexAddr) Value {
	x := vm.get(fr, in.X)
	iv := vm.get(fr, in.Index)
	i := vm.concInt(iv, "index at "+vm.posOf(in))
	switch a := x.(type) {
	case Slice:
		if i < 0 || i >= len(a) {
			vm.goPanic(fmt.Sprintf("runtime error: index out of range [%d] with length %d (%s)", i, len(a), vm.posOf(in)))
		}
		return &a[i]
	case *Value:
		if a == nil {
			vm.goPanic("runtime error: invalid memory address or nil pointer dereference")
		}
		arr := (*a).(Array)
		if i < 0 || i >= len(arr) {
			vm.goPanic(fmt.Sprintf("runtime error: index out of range [%d] with length %d (%s)", i, len(arr), vm.posOf(in)))
		}
		return &arr[i]
	}
	vmErr("IndexAddr on %T", x)
	return nil
}

func (vm *VM) lookup(fr *frame, in *ssa.Lookup) Value {
	x := vm.get(fr, in.X)
	k := vm.get(fr, in.Index)
	switch m := x.(type) {
	case *Map:
		v, ok := vm.mapLookup(m, k)
		if !ok {
			v = vm.zero(in.X.Type().Underlying().(*types.Map).Elem())
		} else {
			v = copyVal(v)
		}
		if in.CommaOk {
			return Tuple{v, ok}
		}
		return v
	case string, *SymStr:
		bs := strBytes(m)
		i := vm.concInt(k, "string index")
		if i < 0 || i >= len(bs) {
			vm.goPanic(fmt.Sprintf("runtime error: index out of range [%d] with length %d (%s)", i, len(bs), vm.posOf(in)))
		}
		return bs[i]
	}
	vmErr("Lookup on %T", x)
	return nil
}

func (vm *VM) sliceOp(fr *frame, in *ssa.Slice) Value {
	x := vm.get(fr, in.X)
	var lo, hi, max = 0, -1, -1
	// a symbolic bound is settled by forking over the possible values 0..capacity
	// (a value outside that range takes the out-of-range path and panics like the real code)
	bound := func(v Value, what string) int {
		t, isT := v.(*smt.Term)
		if !isT || t.Op == smt.OpIntConst {
			return vm.concInt(v, what)
		}
		c := 0
		switch a := x.(type) {
		case Slice:
			c = cap(a)
		case string, *SymStr:
			if hasDec(atomsOf(a)) {
				vmErr("symbolic slice bound on a string with decimal atoms (%s)", what)
			}
			c = strLen(a)
		case *Value:
			if a != nil {
				if arr, ok := (*a).(Array); ok {
					c = len(arr)
				}
			}
		}
		if c > 64 {
			vmErr("symbolic integer where a concrete one is required (%s): %s", what, t.String())
		}
		if vm.Decide(smt.Lt(t, smt.Int64(0))) {
			return -1 << 30
		}
		if vm.Decide(smt.Lt(smt.Int64(int64(c)), t)) {
			return 1 << 30
		}
		return int(vm.ConcretizeInt(t, 0, int64(c)))
	}
	if in.Low != nil {
		lo = bound(vm.get(fr, in.Low), "slice low at "+vm.posOf(in))
	}
	if in.High != nil {
		hi = bound(vm.get(fr, in.High), "slice high at "+vm.posOf(in))
	}
	if in.Max != nil {
		max = vm.concInt(vm.get(fr, in.Max), "slice max")
	}
	oob := func(l, h, c int) {
		vm.goPanic(fmt.Sprintf("runtime error: slice bounds out of range [%d:%d] with capacity %d (%s)", l, h, c, vm.posOf(in)))
	}
	switch a := x.(type) {
	case string, *SymStr:
		if ss, isSym := a.(*SymStr); isSym && hasDec(ss.Atoms) {
			// positions are concrete only before the first decimal atom: s[lo:hi] with both there,
			// and s[lo:] with lo there, need no length
			if v, ok := sliceBeforeDec(ss.Atoms, lo, hi, in.High != nil); ok {
				return v
			}
			vmErr("slice of a string containing a decimal atom outside its concrete prefix (%s)", vm.posOf(in))
		}
		n := strLen(a)
		if in.High == nil {
			hi = n
		}
		if lo < 0 || hi > n || lo > hi {
			oob(lo, hi, n)
		}
		return strSlice(a, lo, hi)
	case Slice:
		if in.High == nil {
			hi = len(a)
		}
		if in.Max == nil {
			max = cap(a)
		}
		if lo < 0 || hi > cap(a) || lo > hi || max > cap(a) || hi > max {
			oob(lo, hi, cap(a))
		}
		if a == nil {
			return Slice(nil)
		}
		return a[lo:hi:max]
	case *Value:
		if a == nil {
			vm.goPanic("runtime error: invalid memory address or nil pointer dereference")
		}
		arr := (*a).(Array)
		if in.High == nil {
			hi = len(arr)
		}
		if in.Max == nil {
			max = len(arr)
		}
		if lo < 0 || hi > len(arr) || lo > hi || max > len(arr) || hi > max {
			oob(lo, hi, len(arr))
		}
		return Slice(arr[lo:hi:max])
	}
	vmErr("Slice on %T", x)
	return nil
}

func (vm *VM) typeAssert(fr *frame, in *ssa.TypeAssert) Value {
	x := vm.get(fr, in.X).(Iface)
	ok := false
	var res Value
	if it, isIface := in.AssertedType.Underlying().(*types.Interface); isIface {
		if x.T != nil && types.Implements(x.T, it) {
			ok = true
			res = x
		} else {
			res = Iface{}
		}
	} else {
		if x.T != nil && types.Identical(x.T, in.AssertedType) {
			ok = true
			res = copyVal(x.V)
		} else {
			res = vm.zero(in.AssertedType)
		}
	}
	if in.CommaOk {
		return Tuple{res, ok}
	}
	if !ok {
		got := "nil"
		if x.T != nil {
			got = x.T.String()
		}
		vm.goPanic(fmt.Sprintf("interface conversion: interface is %s, not %s (%s)", got, in.AssertedType, vm.posOf(in)))
	}
	return res
}

func (vm *VM) rangeOp(fr *frame, in *ssa.Range) Value {
	x := vm.get(fr, in.X)
	switch m := x.(type) {
	case *Map:
		if m == nil {
			return &mapIter{}
		}
		snap := m.entries
		if vm.mapOrder && len(snap) > 1 {
			// a bounded number of ranged maps per path take a non-insertion order
			// (PermuteBudget; the others iterate in insertion order, itself a legal order)
			if vm.PermuteBudget <= 0 || vm.permUsed < vm.PermuteBudget {
				snap = vm.permute(snap)
			}
		}
		return &mapIter{m: m, snap: snap}
	case string:
		return &strIter{s: m}
	}
	vmErr("range over %T", x)
	return nil
}

// permute picks a symbolic permutation of the entries (forks over all orders).
func (vm *VM) permute(in []mapEntry) []mapEntry {
	if len(in) > 3 {
		// larger maps: identity, reversal and rotation by one only (stated bound)
		out := make([]mapEntry, len(in))
		copy(out, in)
		if vm.Decide(vm.SymBool(fmt.Sprintf("maporder_%d", len(vm.trace)))) {
			return out
		}
		vm.permUsed++
		if vm.Decide(vm.SymBool(fmt.Sprintf("maporder_%d", len(vm.trace)))) {
			for i, j := 0, len(out)-1; i < j; i, j = i+1, j-1 {
				out[i], out[j] = out[j], out[i]
			}
			return out
		}
		return append(out[1:], out[0])
	}
	rest := make([]mapEntry, len(in))
	copy(rest, in)
	var out []mapEntry
	changed := false
	for len(rest) > 1 {
		pick := 0
		for pick < len(rest)-1 {
			b := vm.SymBool(fmt.Sprintf("maporder_%d", len(vm.trace)))
			if vm.Decide(b) {
				break
			}
			pick++
		}
		if pick != 0 && !changed {
			changed = true
			vm.permUsed++
		}
		out = append(out, rest[pick])
		rest = append(append([]mapEntry{}, rest[:pick]...), rest[pick+1:]...)
	}
	return append(out, rest...)
}

func (vm *VM) nextOp(fr *frame, in *ssa.Next) Value {
	it := vm.get(fr, in.Iter)
	switch x := it.(type) {
	case *mapIter:
		for x.i < len(x.snap) {
			e := x.snap[x.i]
			x.i++
			if v, ok := vm.mapLookup(x.m, e.K); ok {
				return Tuple{true, e.K, copyVal(v)}
			}
		}
		return Tuple{false, nil, nil}
	case *strIter:
		if x.i >= len(x.s) {
			return Tuple{false, int64(0), int64(0)}
		}
		i := x.i
		var r rune
		var w int
		for j, rr := range x.s[i:] {
			if j == 0 {
				r = rr
				continue
			}
			w = j
			break
		}
		if w == 0 {
			w = len(x.s) - i
		}
		x.i += w
		return Tuple{true, int64(i), int64(r)}
	}
	vmErr("next on %T", it)
	return nil
}

// pinTerm handles a product of two symbolic factors, which the linear integer
// encoding cannot express: one factor is pinned to a witness value of the path
// condition (preferring a non-degenerate one) and the path continues under that
// extra equality. Everything found afterwards is a real behaviour (and is
// replayed natively); what is lost is completeness on this path, which is
// counted as pinned_products in the evidence (zero on the unchanged tree).
func (vm *VM) pinTerm(t *smt.Term) *smt.Term {
	if vm.pos < len(vm.prefix) {
		d := vm.prefix[vm.pos]
		vm.pos++
		vm.trace = append(vm.trace, d)
		if d.Pin == nil {
			vmErr("internal: decision trace out of step at a pinned product")
		}
		vm.assume(smt.Eq(t, smt.Int(d.Pin)))
		return smt.Int(d.Pin)
	}
	vm.pos++
	var val *big.Int
	for _, pref := range []*smt.Term{smt.Le(smt.Int(pow2(64)), t), smt.Le(smt.Int64(7), t), smt.True} {
		vm.Solver.Push()
		vm.Solver.Assert(pref)
		if vm.Solver.Check() == smt.Sat {
			if m, err := vm.Solver.Model(); err == nil {
				if v, _ := t.Eval(m); v != nil {
					val = v
				}
			}
		}
		vm.Solver.Pop()
		if val != nil {
			break
		}
	}
	if val == nil {
		return nil
	}
	vm.trace = append(vm.trace, Decision{Pin: val})
	vm.assume(smt.Eq(t, smt.Int(val)))
	vm.Extra["pinned_products"] = vm.intExtra("pinned_products") + 1
	return smt.Int(val)
}

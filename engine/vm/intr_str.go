package vm

import (
	"fmt"
	"math/big"
	"strings"

	"github.com/formancehq/numscript/zzverif/smt"
)

func isDigitCond(b *smt.Term) *smt.Term {
	return smt.And(smt.Le(smt.Int64('0'), b), smt.Le(b, smt.Int64('9')))
}

// concretizeByteIn forks on whether symbolic byte b equals one of the given
// bytes; returns the concrete byte and true if it does.
func (vm *VM) byteIsOneOf(b Value, set string) (byte, bool) {
	switch x := b.(type) {
	case int64:
		if strings.IndexByte(set, byte(x)) >= 0 {
			return byte(x), true
		}
		return 0, false
	case *smt.Term:
		for i := 0; i < len(set); i++ {
			if vm.Decide(smt.Eq(x, smt.Int64(int64(set[i])))) {
				return set[i], true
			}
		}
		return 0, false
	}
	vmErr("byteIsOneOf: %T", b)
	return 0, false
}

// parseDigits interprets bytes as a run of digits in the given base (<=10),
// forking on digit-ness of symbolic bytes. ok=false: a non-digit was met.
func (vm *VM) parseDigits(bs []Value, base int64) (*smt.Term, bool) {
	if len(bs) == 0 {
		return nil, false
	}
	acc := smt.Int64(0)
	for _, b := range bs {
		switch x := b.(type) {
		case int64:
			if x < '0' || x >= '0'+base {
				return nil, false
			}
			acc = smt.Add(smt.Mul(acc, smt.Int64(base)), smt.Int64(x-'0'))
		case *smt.Term:
			c := smt.And(smt.Le(smt.Int64('0'), x), smt.Lt(x, smt.Int64('0'+base)))
			if !vm.Decide(c) {
				return nil, false
			}
			acc = smt.Add(smt.Mul(acc, smt.Int64(base)), smt.Sub(x, smt.Int64('0')))
		}
	}
	return acc, true
}

// parseBigString models (*big.Int).SetString(s, base) for base 10 and 0.
func (vm *VM) parseBigString(s Value, base int) (*smt.Term, bool) {
	if cs, ok := s.(string); ok {
		n, ok := new(big.Int).SetString(cs, base)
		if !ok {
			return nil, false
		}
		return smt.Int(n), true
	}
	atoms := atomsOf(s)
	if len(atoms) == 1 && atoms[0].Kind == aDec && (base == 10 || base == 0) {
		return atoms[0].T, true
	}
	if hasDec(atoms) {
		vmErr("SetString on mixed decimal-atom string %s", describe(s))
	}
	bs := strBytes(s)
	if len(bs) == 0 {
		return nil, false
	}
	neg := false
	if c, ok := vm.byteIsOneOf(bs[0], "+-"); ok {
		neg = c == '-'
		bs = bs[1:]
	}
	if len(bs) == 0 {
		return nil, false
	}
	switch base {
	case 10:
		t, ok := vm.parseDigits(bs, 10)
		if !ok {
			return nil, false
		}
		if neg {
			t = smt.Neg(t)
		}
		return t, true
	case 0:
		t, ok := vm.parseBase0(bs, false)
		if !ok {
			return nil, false
		}
		if neg {
			t = smt.Neg(t)
		}
		return t, true
	}
	vmErr("SetString with base %d on a symbolic string", base)
	return nil, false
}

// parseBase0 models nat.scan(base 0) on bytes restricted (by forking) to what
// the repo can feed it: digits, with the octal rule for a leading 0 when
// fracOk is false. Letters (0x.., 0b.., 0o..) and underscores in symbolic
// positions are handled by forking on those bytes.
func (vm *VM) parseBase0(bs []Value, fracOk bool) (*smt.Term, bool) {
	if len(bs) == 0 {
		return nil, false
	}
	if len(bs) >= 2 {
		if _, isZero := vm.byteIsOneOf(bs[0], "0"); isZero {
			// prefix letter?
			if c, ok := vm.byteIsOneOf(bs[1], "xXbBoO_"); ok {
				// fully model only when the rest is concrete; otherwise refuse
				all := true
				var sb strings.Builder
				sb.WriteByte('0')
				sb.WriteByte(c)
				for _, b := range bs[2:] {
					x, isC := b.(int64)
					if !isC {
						all = false
						break
					}
					sb.WriteByte(byte(x))
				}
				if !all {
					vmErr("base-0 numeral with a prefix letter and symbolic digits")
				}
				n, ok := new(big.Int).SetString(sb.String(), 0)
				if !ok {
					return nil, false
				}
				return smt.Int(n), true
			}
			if !fracOk {
				// octal; underscores may separate digits in base 0
				return vm.parseDigitsUnderscore(bs[1:], 8)
			}
		}
	}
	return vm.parseDigitsUnderscore(bs, 10)
}

// parseDigitsUnderscore: digits with optional single underscores between digits (base-0 rule).
func (vm *VM) parseDigitsUnderscore(bs []Value, base int64) (*smt.Term, bool) {
	acc := smt.Int64(0)
	prevDigit := false
	n := 0
	for i, b := range bs {
		if _, isU := vm.byteIsOneOf(b, "_"); isU {
			if !prevDigit || i == len(bs)-1 {
				return nil, false
			}
			prevDigit = false
			continue
		}
		t, ok := vm.parseDigits([]Value{b}, base)
		if !ok {
			return nil, false
		}
		acc = smt.Add(smt.Mul(acc, smt.Int64(base)), t)
		prevDigit = true
		n++
	}
	if n == 0 || !prevDigit {
		return nil, false
	}
	return acc, true
}

// parseRatString models (*big.Rat).SetString for the forms the repo produces:
// "a/b" (both base 0, b unsigned) and decimal "i.f" / "i" (no exponent).
func (vm *VM) parseRatString(s Value) (RatVal, bool) {
	if cs, ok := s.(string); ok {
		r, ok := new(big.Rat).SetString(cs)
		if !ok {
			return RatVal{}, false
		}
		return rv(smt.Int(r.Num()), smt.Int(r.Denom())), true
	}
	atoms := atomsOf(s)
	// dec(n) "/" dec(d)
	if len(atoms) == 3 && atoms[0].Kind == aDec && atoms[1].Kind == aConc && atoms[1].S == "/" && atoms[2].Kind == aDec {
		d := atoms[2].T
		// the denominator is scanned unsigned: a '-' makes the parse fail
		if vm.Truth(fromBoolTerm(smt.Lt(d, smt.Int64(0)))) {
			return RatVal{}, false
		}
		if vm.Truth(fromBoolTerm(smt.Eq(d, smt.Int64(0)))) {
			return RatVal{}, false
		}
		return mkRat(atoms[0].T, d), true
	}
	if hasDec(atoms) {
		vmErr("Rat.SetString on %s", describe(s))
	}
	bs := strBytes(s)
	// locate '/' and '.' (forking on symbolic bytes)
	slash, dot := -1, -1
	for i, b := range bs {
		if c, ok := vm.byteIsOneOf(b, "/.eEpP"); ok {
			switch c {
			case '/':
				if slash < 0 {
					slash = i
				}
			case '.':
				if dot < 0 {
					dot = i
				}
			default:
				vmErr("Rat.SetString: exponent forms on symbolic strings are not modelled")
			}
		}
	}
	if slash >= 0 {
		nb, db := bs[:slash], bs[slash+1:]
		neg := false
		if len(nb) > 0 {
			if c, ok := vm.byteIsOneOf(nb[0], "+-"); ok {
				neg = c == '-'
				nb = nb[1:]
			}
		}
		n, ok := vm.parseBase0(nb, false)
		if !ok {
			return RatVal{}, false
		}
		d, ok := vm.parseBase0(db, false)
		if !ok {
			return RatVal{}, false
		}
		if vm.Truth(fromBoolTerm(smt.Eq(d, smt.Int64(0)))) {
			return RatVal{}, false
		}
		if neg {
			n = smt.Neg(n)
		}
		return mkRat(n, d), true
	}
	// decimal: [sign] digits [. digits]
	neg := false
	if len(bs) > 0 {
		if c, ok := vm.byteIsOneOf(bs[0], "+-"); ok {
			neg = c == '-'
			bs = bs[1:]
			if dot >= 0 {
				dot--
			}
		}
	}
	var ib, fb []Value
	if dot >= 0 {
		ib, fb = bs[:dot], bs[dot+1:]
	} else {
		ib = bs
	}
	if len(ib) == 0 && len(fb) == 0 {
		return RatVal{}, false
	}
	// base prefixes (0x, 0b, 0o) cannot arise from digits; a leading 0 is decimal when fracOk
	all := append(append([]Value{}, ib...), fb...)
	for _, b := range all {
		if _, isU := vm.byteIsOneOf(b, "_xXbBoO"); isU {
			vmErr("Rat.SetString: prefix/underscore forms on symbolic strings are not modelled")
		}
	}
	n, ok := vm.parseDigits(all, 10)
	if !ok {
		return RatVal{}, false
	}
	if neg {
		n = smt.Neg(n)
	}
	den := new(big.Int).Exp(big.NewInt(10), big.NewInt(int64(len(fb))), nil)
	return mkRat(n, smt.Int(den)), true
}

// callStringer invokes x.String() / x.Error() in the VM when the dynamic type has one.
func (vm *VM) stringOf(v Value) (Value, bool) {
	ifc, ok := v.(Iface)
	if !ok {
		return nil, false
	}
	if ifc.T == nil {
		return "<nil>", true
	}
	for _, name := range []string{"Error", "String"} {
		ms := vm.Prog.MethodSets.MethodSet(ifc.T)
		for i := 0; i < ms.Len(); i++ {
			sel := ms.At(i)
			if sel.Obj().Name() == name {
				fn := vm.Prog.MethodValue(sel)
				if fn == nil || fn.Signature.Params().Len() != 0 || fn.Signature.Results().Len() != 1 {
					continue
				}
				return vm.callFunc(fn, nil, []Value{ifc.V}), true
			}
		}
	}
	return nil, false
}

// fmtValue renders one Sprintf operand for %s / %v / %d.
func (vm *VM) fmtValue(verb byte, v Value) Value {
	ifc, isI := v.(Iface)
	if !isI {
		vmErr("fmt operand is not an interface: %T", v)
	}
	if ifc.T == nil {
		if verb == 's' {
			return "%!s(<nil>)"
		}
		return "<nil>"
	}
	if verb == 's' || verb == 'v' {
		if s, ok := vm.stringOf(v); ok {
			return s
		}
	}
	if verb == 'd' {
		// big integers implement fmt.Formatter: %d renders the decimal value
		if p, ok := ifc.V.(*Value); ok && p != nil {
			if b, isBig := (*p).(BigVal); isBig {
				return mkStr([]Atom{{Kind: aDec, T: vm.forceBig(b)}})
			}
		}
		if b, isBig := ifc.V.(BigVal); isBig {
			return mkStr([]Atom{{Kind: aDec, T: vm.forceBig(b)}})
		}
	}
	switch x := ifc.V.(type) {
	case string:
		if verb == 'd' {
			return "%!d(string=" + x + ")"
		}
		return x
	case *SymStr:
		return x
	case int64:
		if verb == 's' {
			return fmt.Sprintf("%%!s(%s=%d)", ifc.T.String(), x)
		}
		if _, signed, _ := intInfo(ifc.T); !signed {
			return fmt.Sprint(uint64(x))
		}
		return fmt.Sprint(x)
	case *smt.Term:
		if x.Sort == smt.SInt {
			return mkStr([]Atom{{Kind: aDec, T: x}})
		}
	case bool:
		return fmt.Sprint(x)
	case float64:
		return fmt.Sprint(x)
	}
	return &Opaque{What: "fmt of " + ifc.T.String()}
}

// Opaque is a string whose contents the engine does not know; any inspection is inconclusive.
type Opaque struct {
	What string
	Blob *JSONBlob // set when the string is the JSON text of a value (value-carrying stub)
}

func (vm *VM) sprintf(format Value, args []Value) Value {
	f, ok := format.(string)
	if !ok {
		// a symbolic format is understood when it cannot contain a directive: concrete parts
		// without '%', the rest decimal renderings of numbers; with no operands it prints as it is
		if ss, isSym := format.(*SymStr); isSym && len(args) == 0 {
			plain := true
			for _, a := range ss.Atoms {
				switch a.Kind {
				case aConc:
					if strings.Contains(a.S, "%") {
						plain = false
					}
				case aDec:
				default:
					plain = false
				}
			}
			if plain {
				return format
			}
		}
		if o, isO := format.(*Opaque); isO && o.Blob != nil {
			// the text is used as a format: directives in it (a '%' in a string of the value) would be
			// interpreted, so the output is only known to be "something derived from that JSON"
			return &Opaque{What: "JSON text of a value passed through a format"}
		}
		vmErr("Sprintf with symbolic format")
	}
	var atoms []Atom
	opaque := false
	ai := 0
	add := func(v Value) {
		switch x := v.(type) {
		case string:
			atoms = append(atoms, Atom{Kind: aConc, S: x})
		case *SymStr:
			atoms = append(atoms, x.Atoms...)
		case *Opaque:
			opaque = true
		default:
			opaque = true
		}
	}
	for i := 0; i < len(f); i++ {
		c := f[i]
		if c != '%' {
			atoms = append(atoms, Atom{Kind: aConc, S: string(c)})
			continue
		}
		i++
		if i >= len(f) {
			atoms = append(atoms, Atom{Kind: aConc, S: "%!(NOVERB)"})
			break
		}
		if f[i] == '%' {
			atoms = append(atoms, Atom{Kind: aConc, S: "%"})
			continue
		}
		// flags / width
		spec := "%"
		for i < len(f) && strings.IndexByte("+-# 0123456789.", f[i]) >= 0 {
			spec += string(f[i])
			i++
		}
		if i >= len(f) {
			break
		}
		verb := f[i]
		spec += string(verb)
		if ai >= len(args) {
			atoms = append(atoms, Atom{Kind: aConc, S: "%!" + string(verb) + "(MISSING)"})
			continue
		}
		arg := args[ai]
		ai++
		if spec == "%s" || spec == "%v" || spec == "%d" {
			add(vm.fmtValue(verb, arg))
			continue
		}
		// other specs: only concrete basic operands, rendered natively
		if ifc, ok := arg.(Iface); ok && ifc.T != nil {
			switch x := ifc.V.(type) {
			case int64:
				atoms = append(atoms, Atom{Kind: aConc, S: fmt.Sprintf(spec, x)})
				continue
			case string:
				atoms = append(atoms, Atom{Kind: aConc, S: fmt.Sprintf(spec, x)})
				continue
			}
		}
		opaque = true
	}
	if opaque {
		return &Opaque{What: "Sprintf(" + f + ")"}
	}
	return mkStr(atoms)
}

func registerStr(vm *VM) {
	I := vm.intrinsics
	I["fmt.Sprintf"] = func(vm *VM, _ *frame, a []Value) Value {
		return vm.sprintf(a[0], a[1].(Slice))
	}
	I["fmt.Sprint"] = func(vm *VM, _ *frame, a []Value) Value {
		args := a[0].(Slice)
		var atoms []Atom
		for _, x := range args {
			v := vm.fmtValue('v', x)
			switch s := v.(type) {
			case string:
				atoms = append(atoms, Atom{Kind: aConc, S: s})
			case *SymStr:
				atoms = append(atoms, s.Atoms...)
			default:
				return &Opaque{What: "Sprint"}
			}
		}
		return mkStr(atoms)
	}
	I["fmt.Errorf"] = func(vm *VM, _ *frame, a []Value) Value {
		vmErr("fmt.Errorf is not modelled")
		return nil
	}
	I["strings.Split"] = func(vm *VM, _ *frame, a []Value) Value {
		sep, ok := a[1].(string)
		if !ok {
			vmErr("strings.Split with symbolic separator")
		}
		s := a[0]
		if ss, isSym := s.(*SymStr); isSym && len(sep) == 1 && !((sep[0] >= '0' && sep[0] <= '9') || sep[0] == '-') {
			// settle each symbolic byte against the separator
			atoms := make([]Atom, len(ss.Atoms))
			copy(atoms, ss.Atoms)
			for i, at := range atoms {
				if at.Kind == aByte {
					if vm.Decide(smt.Eq(at.T, smt.Int64(int64(sep[0])))) {
						atoms[i] = Atom{Kind: aConc, S: sep}
					} else {
						atoms[i] = Atom{Kind: aByte, T: at.T}
					}
				}
			}
			return Slice(splitSettled(atoms, sep))
		}
		return Slice(splitStr(s, sep))
	}
	I["strings.Repeat"] = func(vm *VM, _ *frame, a []Value) Value {
		s, ok := a[0].(string)
		if !ok {
			vmErr("strings.Repeat of symbolic string")
		}
		switch n := a[1].(type) {
		case int64:
			if n < 0 {
				vm.goPanic("strings: negative Repeat count")
			}
			if n > 1<<20 {
				vmErr("strings.Repeat count too large to materialise (%d)", n)
			}
			return strings.Repeat(s, int(n))
		case *smt.Term:
			if vm.Decide(smt.Lt(n, smt.Int64(0))) {
				vm.goPanic("strings: negative Repeat count")
			}
			return &Opaque{What: "strings.Repeat with symbolic count"}
		}
		vmErr("strings.Repeat count %T", a[1])
		return nil
	}
	conc2 := func(name string, f func(a, b string) Value) {
		I[name] = func(vm *VM, _ *frame, a []Value) Value {
			x, ok1 := a[0].(string)
			y, ok2 := a[1].(string)
			if !ok1 && ok2 && !hasDec(atomsOf(a[0])) {
				// symbolic subject (bytes), concrete pattern: decided byte by byte
				bs := strBytes(a[0])
				switch name {
				case "strings.Index":
					return vm.symIndex(bs, y)
				case "strings.Contains":
					return vm.symIndex(bs, y) >= 0
				case "strings.HasPrefix":
					return len(bs) >= len(y) && vm.Decide(vm.matchAt(bs, 0, y))
				case "strings.HasSuffix":
					return len(bs) >= len(y) && vm.Decide(vm.matchAt(bs, len(bs)-len(y), y))
				}
			}
			if !ok1 && ok2 && y != "" && !strings.ContainsAny(y, "-0123456789") && hasDec(atomsOf(a[0])) {
				// a pattern without digits or '-' cannot overlap a decimal atom (never empty): it matches
				// inside one of the runs between the atoms, starts a string only if the string does not
				// start with an atom, and ends it only if the string does not end with one
				as := atomsOf(a[0])
				runs := decFreeRuns(as)
				switch name {
				case "strings.Contains":
					for _, r := range runs {
						if vm.symIndex(r, y) >= 0 {
							return true
						}
					}
					return false
				case "strings.HasPrefix":
					if as[0].Kind == aDec || len(runs[0]) < len(y) {
						return false
					}
					return vm.Decide(vm.matchAt(runs[0], 0, y))
				case "strings.HasSuffix":
					last := runs[len(runs)-1]
					if as[len(as)-1].Kind == aDec || len(last) < len(y) {
						return false
					}
					return vm.Decide(vm.matchAt(last, len(last)-len(y), y))
				}
			}
			if !ok1 && ok2 && name == "strings.Index" && y != "" && !strings.ContainsAny(y, "-0123456789") {
				// decimal atoms (digits, '-') cannot take part in a match of this pattern: a match that
				// lies before the first decimal atom has a concrete position
				if idx, ok := vm.indexBeforeDec(atomsOf(a[0]), y); ok {
					return idx
				}
			}
			if !ok1 || !ok2 {
				vmErr("%s on symbolic strings (%s, %s)", name, describe(a[0]), describe(a[1]))
			}
			return f(x, y)
		}
	}
	conc2("strings.Index", func(a, b string) Value { return int64(strings.Index(a, b)) })
	conc2("strings.Contains", func(a, b string) Value { return strings.Contains(a, b) })
	conc2("strings.HasPrefix", func(a, b string) Value { return strings.HasPrefix(a, b) })
	conc2("strings.HasSuffix", func(a, b string) Value { return strings.HasSuffix(a, b) })
	I["strings.TrimSuffix"] = func(vm *VM, _ *frame, a []Value) Value {
		suf, ok := a[1].(string)
		if !ok {
			vmErr("TrimSuffix with symbolic suffix")
		}
		if s, ok := a[0].(string); ok {
			return strings.TrimSuffix(s, suf)
		}
		bs := strBytes(a[0])
		if len(bs) < len(suf) {
			return a[0]
		}
		cond := smt.True
		for i := 0; i < len(suf); i++ {
			cond = smt.And(cond, smt.Eq(toTerm(bs[len(bs)-len(suf)+i]), smt.Int64(int64(suf[i]))))
		}
		if vm.Decide(cond) {
			return strFromBytes(bs[:len(bs)-len(suf)])
		}
		return a[0]
	}
	I["strings.TrimSpace"] = func(vm *VM, _ *frame, a []Value) Value {
		if s, ok := a[0].(string); ok {
			return strings.TrimSpace(s)
		}
		bs := strBytes(a[0])
		isSpace := func(b Value) bool {
			_, ok := vm.byteIsOneOf(b, " \t\n\v\f\r")
			if !ok {
				if t, isT := b.(*smt.Term); isT {
					// bytes >= 0x80 may start a unicode space (U+0085, U+00A0): keep it simple and sound
					if vm.Decide(smt.Le(smt.Int64(0x80), t)) {
						vmErr("TrimSpace over a symbolic non-ASCII byte")
					}
				}
			}
			return ok
		}
		lo, hi := 0, len(bs)
		for lo < hi && isSpace(bs[lo]) {
			lo++
		}
		for hi > lo && isSpace(bs[hi-1]) {
			hi--
		}
		return strFromBytes(bs[lo:hi])
	}
	I["strings.Replace"] = func(vm *VM, _ *frame, a []Value) Value {
		s, ok0 := a[0].(string)
		o, ok1 := a[1].(string)
		n, ok2 := a[2].(string)
		if ok0 && ok1 && ok2 {
			return strings.Replace(s, o, n, vm.concInt(a[3], "Replace n"))
		}
		if ok1 && ok2 && len(o) == 1 {
			// settle symbolic bytes against the single-byte pattern
			cnt := vm.concInt(a[3], "Replace n")
			bs := strBytes(a[0])
			var out []Value
			for _, b := range bs {
				if cnt != 0 {
					if _, is := vm.byteIsOneOf(b, o); is {
						out = append(out, strBytes(n)...)
						cnt--
						continue
					}
				}
				out = append(out, b)
			}
			return strFromBytes(out)
		}
		vmErr("strings.Replace on symbolic operands")
		return nil
	}
	I["strings.Join"] = func(vm *VM, _ *frame, a []Value) Value {
		elems := a[0].(Slice)
		var acc Value = ""
		for i, e := range elems {
			if i > 0 {
				acc = concatStr(acc, a[1])
			}
			acc = concatStr(acc, e)
		}
		return acc
	}
	I["strings.Clone"] = func(vm *VM, _ *frame, a []Value) Value { return a[0] }
	I["internal/stringslite.Clone"] = func(vm *VM, _ *frame, a []Value) Value { return a[0] }
	I["strconv.cloneString"] = func(vm *VM, _ *frame, a []Value) Value { return a[0] }
	I["internal/stringslite.Index"] = I["strings.Index"]
	I["strings.IndexByte"] = func(vm *VM, _ *frame, a []Value) Value {
		s, ok := a[0].(string)
		if !ok {
			if hasDec(atomsOf(a[0])) {
				vmErr("IndexByte on a string containing a decimal atom")
			}
			return vm.symIndex(strBytes(a[0]), string([]byte{byte(vm.concInt(a[1], "byte"))}))
		}
		return int64(strings.IndexByte(s, byte(vm.concInt(a[1], "byte"))))
	}
	I["internal/stringslite.IndexByte"] = I["strings.IndexByte"]
	I["internal/bytealg.IndexByteString"] = I["strings.IndexByte"]
	I["math.Pow10"] = func(vm *VM, _ *frame, a []Value) Value {
		n := vm.concInt(a[0], "Pow10 exponent")
		return pow10(n)
	}
	I["errors.New"] = func(vm *VM, _ *frame, a []Value) Value {
		// *errors.errorString{s}
		ep := vm.Pkgs["errors"]
		if ep == nil {
			vmErr("errors package not loaded")
		}
		t := ep.Type("errorString").Type()
		cell := vm.newCell(Struct{a[0]})
		return Iface{T: typesPointer(t), V: cell}
	}
}

// splitSettled splits atoms whose symbolic bytes are known to differ from sep.
func splitSettled(atoms []Atom, sep string) []Value {
	var out []Value
	var cur []Atom
	for _, a := range atoms {
		if a.Kind != aConc {
			cur = append(cur, a)
			continue
		}
		pieces := strings.Split(a.S, sep)
		for i, p := range pieces {
			if i > 0 {
				out = append(out, mkStr(cur))
				cur = nil
			}
			if p != "" {
				cur = append(cur, Atom{Kind: aConc, S: p})
			}
		}
	}
	out = append(out, mkStr(cur))
	return out
}

func pow10(n int) float64 {
	return mathPow10(n)
}

// matchAt: the bytes bs[i:i+len(pat)] equal pat.
func (vm *VM) matchAt(bs []Value, i int, pat string) *smt.Term {
	c := smt.True
	for j := 0; j < len(pat); j++ {
		c = smt.And(c, smt.Eq(toTerm(bs[i+j]), smt.Int64(int64(pat[j]))))
	}
	return c
}

// symIndex is strings.Index for a concrete pattern in a string of (possibly symbolic) bytes:
// the first position where the pattern matches, deciding each candidate in turn.
func (vm *VM) symIndex(bs []Value, pat string) int64 {
	for i := 0; i+len(pat) <= len(bs); i++ {
		if vm.Decide(vm.matchAt(bs, i, pat)) {
			return int64(i)
		}
	}
	return -1
}

// indexBeforeDec: strings.Index of a pattern without digits or '-' in a string with decimal
// atoms. Decided when the first match lies in the part before the first decimal atom, or when
// no later part can contain the pattern's first character; otherwise not modelled.
func (vm *VM) indexBeforeDec(as []Atom, pat string) (int64, bool) {
	var prefix []Value
	rest := false
	for i, a := range as {
		if a.Kind == aDec {
			for _, b := range as[i+1:] {
				switch b.Kind {
				case aConc:
					if strings.ContainsAny(b.S, pat) {
						rest = true
					}
				case aByte:
					rest = true
				}
			}
			break
		}
		switch a.Kind {
		case aConc:
			for k := 0; k < len(a.S); k++ {
				prefix = append(prefix, int64(a.S[k]))
			}
		case aByte:
			prefix = append(prefix, a.T)
		}
	}
	if idx := vm.symIndex(prefix, pat); idx >= 0 {
		return idx, true
	}
	if rest {
		return 0, false
	}
	return -1, true
}

// decFreeRuns splits the atoms at the decimal atoms and returns the byte runs in between
// (first and last run may be empty).
func decFreeRuns(as []Atom) [][]Value {
	runs := [][]Value{nil}
	for _, a := range as {
		switch a.Kind {
		case aDec:
			runs = append(runs, nil)
		case aConc:
			for k := 0; k < len(a.S); k++ {
				runs[len(runs)-1] = append(runs[len(runs)-1], int64(a.S[k]))
			}
		case aByte:
			runs[len(runs)-1] = append(runs[len(runs)-1], a.T)
		}
	}
	return runs
}

package vm

import (
	"fmt"
	"math/big"
	"sort"
	"strings"
	"time"

	"github.com/formancehq/numscript/zzverif/smt"
	"golang.org/x/tools/go/ssa"
)

type CaseSpec struct {
	ID       string
	Pkg      string // package path holding the harness function
	Fn       string
	Args     []string
	MaxPaths int
	MaxTime  time.Duration
	MapOrder bool
}

type CaseResult struct {
	Spec         CaseSpec
	Paths        int
	PanicPaths   int
	AbortedPaths int
	Decisions    int
	Steps        int
	Findings     []Finding
	Inconclusive map[string]int
	Reached      map[string]int
	Asserted     map[string]int
	Discharged   int
	AssertUnk    map[string]int
	Unknowns     int
	Truncated    string
	Solver       smt.Stats
	Wall         time.Duration
	Functions    map[string]bool
	Suppressed   int
	Samples      []map[string]string
}

// ConcOutcome is the result of one concrete-mode run (translator validation).
type ConcOutcome struct {
	Failed  []string
	Notes   []string
	Reached []string
	Panic   string
	Invalid string
	Error   string
}

// RunConcrete executes the harness once with every symbolic input fixed.
func (vm *VM) RunConcrete(spec CaseSpec, values map[string]string) ConcOutcome {
	fn := vm.FindFunc(spec.Pkg, spec.Fn)
	var out ConcOutcome
	if fn == nil {
		out.Error = "harness not found"
		return out
	}
	args := make([]Value, len(spec.Args))
	for i, a := range spec.Args {
		args[i] = a
	}
	vm.ConcreteValues = values
	if vm.ConcreteValues == nil {
		vm.ConcreteValues = map[string]string{}
	}
	vm.ConcFailed, vm.ConcNotes, vm.ConcReached = nil, nil, nil
	vm.mapOrder = false
	saveF := vm.Findings
	po := vm.runPath(fn, args, nil)
	vm.Findings = saveF
	vm.ConcreteValues = nil
	out.Failed, out.Notes, out.Reached = vm.ConcFailed, vm.ConcNotes, vm.ConcReached
	switch po.kind {
	case "panic":
		out.Panic = po.msg
	case "abort":
		out.Invalid = po.msg
	case "inconclusive":
		out.Error = po.msg
	}
	return out
}

func (vm *VM) FindFunc(pkgPath, name string) *ssa.Function {
	p := vm.Pkgs[pkgPath]
	if p == nil {
		return nil
	}
	return p.Func(name)
}

// InitRepo runs the init functions of the repo's own packages; must be called
// once before the first case. The undo baseline is taken after it.
func (vm *VM) InitRepo(pkgs []string) (err error) {
	defer func() {
		if r := recover(); r != nil {
			err = fmt.Errorf("init failed: %v", r)
		}
	}()
	vm.declared = map[string]symDecl{}
	for _, p := range pkgs {
		if sp := vm.Pkgs[p]; sp != nil {
			vm.lazyInit(sp)
		}
	}
	// inits are part of the baseline: forget their undo entries
	vm.undo = vm.undo[:0]
	return nil
}

func (vm *VM) resetPath(prefix []Decision) {
	vm.prefix = prefix
	vm.pos = 0
	vm.trace = vm.trace[:0]
	vm.pending = nil
	vm.pcCount = 0
	vm.steps = 0
	vm.stack = vm.stack[:0]
	vm.notes = nil
	vm.symCount = map[string]int{}
	vm.declared = map[string]symDecl{}
	vm.unknowns = 0
	vm.mapIDs = 0
	vm.regions = nil
	vm.stubLog = nil
	vm.stdout, vm.stderr, vm.stdin, vm.vfs = nil, nil, nil, nil
	vm.onceSyms = nil
	vm.hazardSeen = false
	vm.permUsed = 0
	vm.frozenOn = false
	vm.frozen, vm.frozenMaps = nil, nil
}

type pathOutcome struct {
	kind string // "ok" | "panic" | "abort" | "inconclusive"
	msg  string
}

func (vm *VM) runPath(fn *ssa.Function, args []Value, prefix []Decision) (out pathOutcome) {
	vm.resetPath(prefix)
	vm.Solver.PopTo(0)
	vm.Solver.Push()
	defer func() {
		if r := recover(); r != nil {
			switch e := r.(type) {
			case VMError:
				out = pathOutcome{"inconclusive", e.Msg}
				vm.completeNatively(e.Msg)
			case GoPanic:
				// feasible by construction; fetch a model
				site := "?"
				if len(e.Stack) > 0 {
					site = e.Stack[len(e.Stack)-1]
				}
				id := site + ": " + firstLine(e.Msg)
				if vm.Solver.Check() == smt.Sat {
					model := vm.modelStrings()
					vm.recordFinding("panic", id, e.Msg, model, e.Stack)
					vm.outsideRegions("panic", id, e.Msg, smt.True, model, e.Stack)
					out = pathOutcome{"panic", e.Msg}
				} else {
					// no model: the panic cannot be replayed, so it is not reported
					out = pathOutcome{"inconclusive", "panic reached but the solver could not produce a model of the path (" + firstLine(e.Msg) + ")"}
				}
			case pathAbort:
				out = pathOutcome{"abort", e.reason}
			default:
				// a defect of the engine itself (e.g. an unexpected value representation): the path is
				// inconclusive, never a verdict; the message goes to the evidence
				out = pathOutcome{"inconclusive", fmt.Sprintf("internal engine error: %v", r)}
				vm.completeNatively(out.msg)
			}
		}
		vm.Solver.PopTo(0)
		vm.undoTo(0)
	}()
	vm.runFunction(fn, nil, args)
	if vm.ConcreteValues == nil && len(vm.Samples) < vm.SampleModels {
		if vm.Solver.Check() == smt.Sat {
			vm.Samples = append(vm.Samples, vm.modelStrings())
		}
	}
	return pathOutcome{"ok", ""}
}

// completeNatively: a path the engine cannot finish (a construct outside the encoding) stays
// inconclusive, but one concrete input of the part explored so far is handed to the native
// replay, which runs the REAL code with the harness's assertions: a native failure is a genuine
// violation, a native pass proves nothing (by-product, not a solver verdict). The input prefers
// large odd numbers (>= 2^64) for the unbounded integers, where conversions and shared storage bite.
func (vm *VM) completeNatively(reason string) {
	defer func() { recover() }()
	if vm.ConcreteValues != nil || vm.Solver == nil {
		return
	}
	names := make([]string, 0, len(vm.declared))
	for n, d := range vm.declared {
		if d.Kind == "int" {
			names = append(names, n)
		}
	}
	sort.Strings(names)
	if len(names) > 6 {
		names = names[:6]
	}
	lvl := vm.Solver.Level()
	vm.Solver.Push()
	got := 0
	for i, n := range names {
		v := smt.Var(n, smt.SInt)
		pref := smt.And(smt.Le(smt.Int(new(big.Int).Add(pow2(64), big.NewInt(int64(12345+2*i)))), v), smt.Eq(smt.Mod(v, smt.Int64(2)), smt.Int64(1)))
		if vm.Solver.CheckWith(pref, false) == smt.Sat {
			vm.Solver.Assert(pref)
			got++
		}
	}
	if vm.Solver.Check() == smt.Sat {
		model := vm.modelStrings()
		// the id carries how many preferences the path allowed, so that the per-id cap keeps
		// the paths on which every number could be made large next to the others
		vm.recordFinding("completion", fmt.Sprintf("engine-limit: path completed natively (%d of %d numbers large)", got, len(names)), firstLine(reason), model, append([]string{}, vm.stack...))
	}
	vm.Solver.PopTo(lvl)
}

func firstLine(s string) string {
	if i := strings.IndexByte(s, '\n'); i >= 0 {
		return s[:i]
	}
	return s
}

// RunCase explores every path of one harness invocation.
func (vm *VM) RunCase(spec CaseSpec) CaseResult {
	t0 := time.Now()
	res := CaseResult{Spec: spec, Inconclusive: map[string]int{}, AssertUnk: map[string]int{}}
	fn := vm.FindFunc(spec.Pkg, spec.Fn)
	if fn == nil {
		res.Inconclusive["stale-anchor: harness function "+spec.Pkg+"."+spec.Fn+" not found"]++
		return res
	}
	args := make([]Value, len(spec.Args))
	for i, a := range spec.Args {
		args[i] = a
	}
	if len(fn.Params) != len(args) {
		res.Inconclusive[fmt.Sprintf("harness %s takes %d params, %d given", spec.Fn, len(fn.Params), len(args))]++
		return res
	}
	vm.Findings = nil
	vm.Samples = nil
	vm.Reached = map[string]int{}
	vm.Asserted = map[string]int{}
	vm.FnSeen = map[string]bool{}
	for k := range vm.Extra {
		if strings.HasPrefix(k, "assert_unknown:") || k == "discharged" || k == "suppressed_findings" {
			delete(vm.Extra, k)
		}
	}
	vm.mapOrder = spec.MapOrder
	startStats := vm.Solver.Stats
	work := [][]Decision{nil}
	maxPaths := spec.MaxPaths
	if maxPaths == 0 {
		maxPaths = 200000
	}
	for len(work) > 0 {
		if res.Paths >= maxPaths {
			res.Truncated = fmt.Sprintf("path budget %d reached with %d prefixes pending", maxPaths, len(work))
			break
		}
		if spec.MaxTime > 0 && time.Since(t0) > spec.MaxTime {
			res.Truncated = fmt.Sprintf("time budget %s reached with %d prefixes pending", spec.MaxTime, len(work))
			break
		}
		prefix := work[len(work)-1]
		work = work[:len(work)-1]
		out := vm.runPath(fn, args, prefix)
		res.Paths++
		res.Decisions += len(vm.trace)
		res.Steps += vm.steps
		res.Unknowns += vm.unknowns
		switch out.kind {
		case "panic":
			res.PanicPaths++
		case "abort":
			res.AbortedPaths++
		case "inconclusive":
			res.Inconclusive[out.msg]++
		}
		work = append(work, vm.pending...)
	}
	res.Findings = vm.Findings
	res.Samples = vm.Samples
	res.Reached = vm.Reached
	res.Asserted = vm.Asserted
	res.Functions = vm.FnSeen
	res.Discharged = vm.intExtra("discharged")
	res.Suppressed = vm.intExtra("suppressed_findings")
	if n := vm.intExtra("pinned_products"); n > 0 {
		res.Inconclusive["a product of two symbolic factors: the path continued with one factor pinned to a witness value (explored at that value only)"] += n
	}
	for k, v := range vm.Extra {
		if strings.HasPrefix(k, "assert_unknown:") {
			res.AssertUnk[strings.TrimPrefix(k, "assert_unknown:")] = v.(int)
		}
	}
	end := vm.Solver.Stats
	res.Solver = smt.Stats{Queries: end.Queries - startStats.Queries, Sat: end.Sat - startStats.Sat,
		Unsat: end.Unsat - startStats.Unsat, Unknown: end.Unknown - startStats.Unknown,
		Errors: end.Errors - startStats.Errors, Time: end.Time - startStats.Time, LastErr: end.LastErr, MaxQuery: end.MaxQuery}
	res.Wall = time.Since(t0)
	return res
}

func (r *CaseResult) InconclusiveList() []string {
	var out []string
	for k, n := range r.Inconclusive {
		out = append(out, fmt.Sprintf("%s (x%d)", k, n))
	}
	sort.Strings(out)
	return out
}

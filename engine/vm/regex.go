package vm

import (
	"regexp"
	"regexp/syntax"

	"github.com/formancehq/numscript/zzverif/smt"
)

// symRegexSubmatch runs the compiled program of an anchored, ASCII-class-only
// pattern over a string with symbolic bytes (leftmost-first backtracking, the
// semantics of Go's regexp for non-POSIX patterns). Every rune test on a
// symbolic byte is a solver decision.
func (vm *VM) symRegexSubmatch(re *regexp.Regexp, s Value) Value {
	rs, err := syntax.Parse(re.String(), syntax.Perl)
	if err != nil {
		vmErr("regexp: cannot re-parse %q: %v", re.String(), err)
	}
	prog, err := syntax.Compile(rs.Simplify())
	if err != nil {
		vmErr("regexp: cannot compile %q: %v", re.String(), err)
	}
	if prog.StartCond()&syntax.EmptyBeginText == 0 {
		vmErr("regexp: unanchored pattern %q on a symbolic string is not modelled", re.String())
	}
	for _, in := range prog.Inst {
		switch in.Op {
		case syntax.InstRune, syntax.InstRune1:
			for _, r := range in.Rune {
				if r > 0x7f {
					vmErr("regexp: pattern %q has non-ASCII classes; byte-wise matching would be inexact", re.String())
				}
			}
			if syntax.Flags(in.Arg)&syntax.FoldCase != 0 {
				vmErr("regexp: case folding on symbolic strings is not modelled")
			}
		case syntax.InstRuneAny, syntax.InstRuneAnyNotNL:
			vmErr("regexp: '.' over symbolic bytes would need UTF-8 decoding")
		}
	}
	if hasDec(atomsOf(s)) {
		vmErr("regexp match over a string with decimal atoms: %s", describe(s))
	}
	bs := strBytes(s)
	ncap := prog.NumCap
	caps := make([]int, ncap)
	for i := range caps {
		caps[i] = -1
	}
	steps := 0
	var run func(pc int, pos int, caps []int) []int
	run = func(pc int, pos int, caps []int) []int {
		for {
			steps++
			if steps > 100000 {
				vmErr("regexp: step budget exceeded")
			}
			in := &prog.Inst[pc]
			switch in.Op {
			case syntax.InstFail:
				return nil
			case syntax.InstMatch:
				// group 0 is the whole match (the pattern is anchored at the start)
				nc := make([]int, len(caps))
				copy(nc, caps)
				if len(nc) >= 2 {
					nc[0], nc[1] = 0, pos
				}
				return nc
			case syntax.InstNop:
				pc = int(in.Out)
			case syntax.InstCapture:
				nc := make([]int, len(caps))
				copy(nc, caps)
				if int(in.Arg) < len(nc) {
					nc[in.Arg] = pos
				}
				caps = nc
				pc = int(in.Out)
			case syntax.InstEmptyWidth:
				op := syntax.EmptyOp(in.Arg)
				ok := true
				if op&syntax.EmptyBeginText != 0 && pos != 0 {
					ok = false
				}
				if op&syntax.EmptyEndText != 0 && pos != len(bs) {
					ok = false
				}
				if op&^(syntax.EmptyBeginText|syntax.EmptyEndText) != 0 {
					vmErr("regexp: empty-width operator %v on symbolic strings is not modelled", op)
				}
				if !ok {
					return nil
				}
				pc = int(in.Out)
			case syntax.InstAlt, syntax.InstAltMatch:
				if r := run(int(in.Out), pos, caps); r != nil {
					return r
				}
				pc = int(in.Arg)
			case syntax.InstRune, syntax.InstRune1:
				if pos >= len(bs) {
					return nil
				}
				if !vm.byteInRanges(bs[pos], in.Rune) {
					return nil
				}
				pos++
				pc = int(in.Out)
			default:
				vmErr("regexp: unsupported instruction %v", in.Op)
			}
		}
	}
	res := run(prog.Start, 0, caps)
	if res == nil {
		return Slice(nil)
	}
	out := make(Slice, ncap/2)
	for i := range out {
		lo, hi := res[2*i], res[2*i+1]
		if lo < 0 || hi < 0 {
			out[i] = ""
			continue
		}
		out[i] = strFromBytes(bs[lo:hi])
	}
	return out
}

// byteInRanges decides membership of a (possibly symbolic) byte in a rune class
// given as pairs of inclusive ranges (or a single rune / list of single runes).
func (vm *VM) byteInRanges(b Value, runes []rune) bool {
	var pairs [][2]rune
	if len(runes) == 1 {
		pairs = [][2]rune{{runes[0], runes[0]}}
	} else {
		for i := 0; i+1 < len(runes); i += 2 {
			pairs = append(pairs, [2]rune{runes[i], runes[i+1]})
		}
	}
	switch x := b.(type) {
	case int64:
		if x >= 0x80 {
			return false
		}
		for _, p := range pairs {
			if rune(x) >= p[0] && rune(x) <= p[1] {
				return true
			}
		}
		return false
	case *smt.Term:
		c := smt.False
		for _, p := range pairs {
			c = smt.Or(c, smt.And(smt.Le(smt.Int64(int64(p[0])), x), smt.Le(x, smt.Int64(int64(p[1])))))
		}
		return vm.Decide(c)
	}
	vmErr("byteInRanges: %T", b)
	return false
}

package vm

import (
	"math/big"

	"github.com/formancehq/numscript/zzverif/smt"
)

func (vm *VM) bigPtr(v Value, what string) *Value {
	p, ok := v.(*Value)
	if !ok {
		vmErr("%s: expected *big.Int pointer, got %T", what, v)
	}
	if p == nil {
		vm.goPanic("runtime error: invalid memory address or nil pointer dereference (" + what + " on nil *big value)")
	}
	return p
}

func (vm *VM) bigGet(v Value, what string) *smt.Term {
	p := vm.bigPtr(v, what)
	b, ok := (*p).(BigVal)
	if !ok {
		vmErr("%s: cell does not hold a big.Int: %s", what, describe(*p))
	}
	if b.Buf != nil && b.Ver < b.Buf.ver {
		vm.aliasHazard(what, b)
	}
	if b.T == nil && b.Lazy != nil {
		n, d := vm.ratNormalize(rv(b.Lazy.N, b.Lazy.D))
		if b.Lazy.Num {
			b.T = n
		} else {
			b.T = d
		}
		*p = BigVal{T: b.T}
	}
	return b.T
}

// aliasHazard: a big.Int value is read whose backing array has since been written
// through another shallow copy of the same struct. In real Go the read may see
// the other value (when the array's capacity sufficed, i.e. for multi-word
// numbers). The VM keeps value semantics; the hazard is recorded with a model
// that prefers numbers >= 2^64 and is decided by the native replay.
func (vm *VM) aliasHazard(what string, b BigVal) {
	if vm.ConcreteValues != nil || vm.hazardSeen {
		return
	}
	vm.hazardSeen = true
	site := "?"
	if len(vm.stack) > 0 {
		site = vm.stack[len(vm.stack)-1]
	}
	big64 := smt.Int(pow2(64))
	pref := smt.True
	if b.T != nil && b.T.Op != smt.OpIntConst {
		pref = smt.Le(big64, b.T)
	}
	var model map[string]string
	vm.Solver.Push()
	vm.Solver.Assert(pref)
	if vm.Solver.Check() == smt.Sat {
		model = vm.modelStrings()
		vm.Solver.Pop()
	} else {
		vm.Solver.Pop()
		if vm.Solver.Check() != smt.Sat {
			return
		}
		model = vm.modelStrings()
	}
	vm.recordFinding("hazard", "shared-big.Int-storage read in "+site, "a big.Int is read after its backing array was written through a shallow copy ("+what+")", model, append([]string{}, vm.stack...))
}

// lazyPart returns the not-yet-normalised numerator/denominator information of a cell, if any.
func lazyPart(v Value) *normPart {
	p, ok := v.(*Value)
	if !ok || p == nil {
		return nil
	}
	if b, ok := (*p).(BigVal); ok && b.T == nil {
		return b.Lazy
	}
	return nil
}

func (vm *VM) ratGet(v Value, what string) RatVal {
	p := vm.bigPtr(v, what)
	r, ok := (*p).(RatVal)
	if !ok {
		vmErr("%s: cell does not hold a big.Rat: %s", what, describe(*p))
	}
	if r.Buf != nil && r.Ver < r.Buf.ver {
		vm.aliasHazard("Rat."+what, BigVal{T: r.N})
	}
	return r
}

func (vm *VM) newBig(t *smt.Term) *Value {
	return vm.newCell(BigVal{T: t, Buf: &bigBuf{}})
}

// ratStore is the result store of a big.Rat operation: the digits go into the receiver's
// own arrays (shared with every shallow copy of the receiver struct).
func (vm *VM) ratStore(z *Value, r RatVal) {
	cur, _ := (*z).(RatVal)
	buf := cur.Buf
	if buf == nil {
		buf = &bigBuf{}
	} else {
		old := buf.ver
		vm.undo = append(vm.undo, undoEntry{f: func() { buf.ver = old }})
		buf.ver++
	}
	vm.store(z, RatVal{N: r.N, D: r.D, Buf: buf, Ver: buf.ver})
}

// bigStore is the result store of a big.Int operation: like math/big it writes
// into the receiver's backing array when the receiver has one (shared with every
// shallow copy of it), else allocates a new one.
func (vm *VM) bigStore(z *Value, t *smt.Term) {
	cur, _ := (*z).(BigVal)
	buf := cur.Buf
	if buf == nil {
		buf = &bigBuf{}
	} else if !(t.Op == smt.OpIntConst && t.K.Sign() == 0) {
		// a non-empty result overwrites the words of the shared array
		old := buf.ver
		vm.undo = append(vm.undo, undoEntry{f: func() { buf.ver = old }})
		buf.ver++
	}
	vm.store(z, BigVal{T: t, Buf: buf, Ver: buf.ver})
}

// divisorsDesc lists the positive divisors of d, largest first (d small).
func divisorsDesc(d *big.Int) []*big.Int {
	var out []*big.Int
	if d.Sign() <= 0 {
		return nil
	}
	if !d.IsInt64() || d.Int64() > 50_000_000 {
		return nil
	}
	n := d.Int64()
	var small, large []int64
	for k := int64(1); k*k <= n; k++ {
		if n%k == 0 {
			small = append(small, k)
			if k != n/k {
				large = append(large, n/k)
			}
		}
	}
	for _, k := range large {
		out = append(out, big.NewInt(k))
	}
	for i := len(small) - 1; i >= 0; i-- {
		out = append(out, big.NewInt(small[i]))
	}
	return out
}

// ratNormalize returns (num/g, den/g) with g = gcd(num, den), exactly.
func (vm *VM) ratNormalize(r RatVal) (num, den *smt.Term) {
	if r.D.Op != smt.OpIntConst {
		if r.N.Op == smt.OpIntConst {
			// symbolic denominator, constant numerator: gcd over divisors of |num|
			if r.N.K.Sign() == 0 {
				return smt.Int64(0), smt.Int64(1)
			}
			divs := divisorsDesc(new(big.Int).Abs(r.N.K))
			if divs == nil {
				vmErr("rat normalisation with symbolic denominator and large numerator")
			}
			num, den = r.N, r.D
			for i := len(divs) - 1; i >= 0; i-- { // build from smallest to largest so the largest wins
				k := divs[i]
				if k.Cmp(big.NewInt(1)) == 0 {
					continue
				}
				c := smt.Eq(smt.Mod(r.D, smt.Int(k)), smt.Int64(0))
				num = smt.Ite(c, smt.Int(new(big.Int).Quo(r.N.K, k)), num)
				den = smt.Ite(c, smt.Div(r.D, smt.Int(k)), den)
			}
			return num, den
		}
		vmErr("rat normalisation with symbolic numerator and denominator")
	}
	if r.N.Op == smt.OpIntConst {
		g := new(big.Int).GCD(nil, nil, new(big.Int).Abs(r.N.K), r.D.K)
		if r.N.K.Sign() == 0 {
			return smt.Int64(0), smt.Int64(1)
		}
		return smt.Int(new(big.Int).Quo(r.N.K, g)), smt.Int(new(big.Int).Quo(r.D.K, g))
	}
	divs := divisorsDesc(r.D.K)
	if divs == nil {
		vmErr("rat normalisation with denominator too large: %s", r.D.K)
	}
	num, den = r.N, r.D
	for i := len(divs) - 1; i >= 0; i-- {
		k := divs[i]
		if k.Cmp(big.NewInt(1)) == 0 {
			continue
		}
		c := smt.Eq(smt.Mod(r.N, smt.Int(k)), smt.Int64(0))
		num = smt.Ite(c, smt.Div(r.N, smt.Int(k)), num)
		den = smt.Ite(c, smt.Int(new(big.Int).Quo(r.D.K, k)), den)
	}
	return num, den
}

func mkRat(n, d *smt.Term) RatVal {
	// keep den > 0 and reduce when fully concrete
	if d.Op == smt.OpIntConst {
		if d.K.Sign() < 0 {
			n = smt.Neg(n)
			d = smt.Int(new(big.Int).Neg(d.K))
		}
		if n.Op == smt.OpIntConst {
			g := new(big.Int).GCD(nil, nil, new(big.Int).Abs(n.K), d.K)
			if n.K.Sign() == 0 {
				return rv(smt.Int64(0), smt.Int64(1))
			}
			return rv(smt.Int(new(big.Int).Quo(n.K, g)), smt.Int(new(big.Int).Quo(d.K, g)))
		}
	}
	return rv(n, d)
}

func (vm *VM) mulTerms(a, b *smt.Term, what string) *smt.Term {
	if !smt.IsLinearMul(a, b) {
		if vm.ConcreteValues == nil {
			if p := vm.pinTerm(a); p != nil {
				return smt.Mul(p, b)
			}
		}
		vmErr("%s: symbolic x symbolic multiplication (%s * %s)", what, a, b)
	}
	return smt.Mul(a, b)
}

func cmpTerm(a, b *smt.Term) *smt.Term {
	return smt.Ite(smt.Lt(a, b), smt.Int64(-1), smt.Ite(smt.Eq(a, b), smt.Int64(0), smt.Int64(1)))
}

func registerBig(vm *VM) {
	I := vm.intrinsics
	I["math/big.NewInt"] = func(vm *VM, _ *frame, a []Value) Value {
		return vm.newBig(intToTerm(a[0], 64, true))
	}
	bin := func(name string, f func(x, y *smt.Term) *smt.Term) {
		I["(*math/big.Int)."+name] = func(vm *VM, _ *frame, a []Value) Value {
			z := vm.bigPtr(a[0], name)
			x := vm.bigGet(a[1], name)
			y := vm.bigGet(a[2], name)
			vm.bigStore(z, (f(x, y)))
			return z
		}
	}
	bin("Add", smt.Add)
	bin("Sub", smt.Sub)
	I["(*math/big.Int).Mul"] = func(vm *VM, _ *frame, a []Value) Value {
		z := vm.bigPtr(a[0], "Mul")
		x := vm.bigGet(a[1], "Mul")
		y := vm.bigGet(a[2], "Mul")
		vm.bigStore(z, (vm.mulTerms(x, y, "Int.Mul")))
		return z
	}
	divmod := func(name string, mod bool) {
		I["(*math/big.Int)."+name] = func(vm *VM, _ *frame, a []Value) Value {
			z := vm.bigPtr(a[0], name)
			// floor(Num/Denom) of one rational does not depend on the common factor
			if lx, ly := lazyPart(a[1]), lazyPart(a[2]); !mod && lx != nil && ly != nil && lx.Num && !ly.Num && lx.N == ly.N && lx.D == ly.D {
				vm.bigStore(z, (smt.Div(lx.N, lx.D)))
				return z
			}
			x := vm.bigGet(a[1], name)
			y := vm.bigGet(a[2], name)
			if vm.Truth(fromBoolTerm(smt.Eq(y, smt.Int64(0)))) {
				vm.goPanic("division by zero")
			}
			if mod {
				vm.bigStore(z, (smt.Mod(x, y)))
			} else {
				vm.bigStore(z, (smt.Div(x, y)))
			}
			return z
		}
	}
	divmod("Div", false)
	divmod("Mod", true)
	I["(*math/big.Int).Exp"] = func(vm *VM, _ *frame, a []Value) Value {
		z := vm.bigPtr(a[0], "Exp")
		x := vm.bigGet(a[1], "Exp")
		y := vm.bigGet(a[2], "Exp")
		if mp, _ := a[3].(*Value); mp != nil {
			mt := vm.bigGet(a[3], "Exp")
			if mt.Op != smt.OpIntConst || mt.K.Sign() != 0 {
				vmErr("big.Int.Exp with a modulus is not modelled")
			}
		}
		if x.Op != smt.OpIntConst || y.Op != smt.OpIntConst {
			vmErr("big.Int.Exp on symbolic operands")
		}
		if y.K.Sign() <= 0 {
			vm.bigStore(z, (smt.Int64(1)))
			return z
		}
		if y.K.BitLen() > 16 {
			vmErr("big.Int.Exp exponent too large")
		}
		vm.bigStore(z, (smt.Int(new(big.Int).Exp(x.K, y.K, nil))))
		return z
	}
	I["(*math/big.Int).Neg"] = func(vm *VM, _ *frame, a []Value) Value {
		z := vm.bigPtr(a[0], "Neg")
		vm.bigStore(z, (smt.Neg(vm.bigGet(a[1], "Neg"))))
		return z
	}
	I["(*math/big.Int).Abs"] = func(vm *VM, _ *frame, a []Value) Value {
		z := vm.bigPtr(a[0], "Abs")
		x := vm.bigGet(a[1], "Abs")
		vm.bigStore(z, (smt.Ite(smt.Lt(x, smt.Int64(0)), smt.Neg(x), x)))
		return z
	}
	I["(*math/big.Int).Set"] = func(vm *VM, _ *frame, a []Value) Value {
		z := vm.bigPtr(a[0], "Set")
		vm.bigStore(z, (vm.bigGet(a[1], "Set")))
		return z
	}
	I["(*math/big.Int).SetInt64"] = func(vm *VM, _ *frame, a []Value) Value {
		z := vm.bigPtr(a[0], "SetInt64")
		vm.bigStore(z, (intToTerm(a[1], 64, true)))
		return z
	}
	I["(*math/big.Int).SetUint64"] = func(vm *VM, _ *frame, a []Value) Value {
		z := vm.bigPtr(a[0], "SetUint64")
		vm.bigStore(z, (intToTerm(a[1], 64, false)))
		return z
	}
	I["(*math/big.Int).Cmp"] = func(vm *VM, _ *frame, a []Value) Value {
		x := vm.bigGet(a[0], "Cmp")
		y := vm.bigGet(a[1], "Cmp")
		return fromIntTerm(cmpTerm(x, y), 64, true)
	}
	I["(*math/big.Int).CmpAbs"] = func(vm *VM, _ *frame, a []Value) Value {
		x := vm.bigGet(a[0], "CmpAbs")
		y := vm.bigGet(a[1], "CmpAbs")
		ax := smt.Ite(smt.Lt(x, smt.Int64(0)), smt.Neg(x), x)
		ay := smt.Ite(smt.Lt(y, smt.Int64(0)), smt.Neg(y), y)
		return fromIntTerm(cmpTerm(ax, ay), 64, true)
	}
	// truncated division (Quo/Rem) from Euclidean division, forking on signs when they are not known
	truncDiv := func(vm *VM, x, y *smt.Term) (q, r *smt.Term) {
		if vm.Truth(fromBoolTerm(smt.Eq(y, smt.Int64(0)))) {
			vm.goPanic("division by zero")
		}
		absT := func(t *smt.Term) *smt.Term { return smt.Ite(smt.Lt(t, smt.Int64(0)), smt.Neg(t), t) }
		if y.Op != smt.OpIntConst {
			// fork on the sign of a symbolic divisor so that the division stays by a positive term
			if vm.Truth(fromBoolTerm(smt.Lt(y, smt.Int64(0)))) {
				q0, r0 := smt.Div(absT(x), smt.Neg(y)), smt.Mod(absT(x), smt.Neg(y))
				q = smt.Ite(smt.Lt(x, smt.Int64(0)), q0, smt.Neg(q0))
				r = smt.Ite(smt.Lt(x, smt.Int64(0)), smt.Neg(r0), r0)
				return q, r
			}
			q0, r0 := smt.Div(absT(x), y), smt.Mod(absT(x), y)
			q = smt.Ite(smt.Lt(x, smt.Int64(0)), smt.Neg(q0), q0)
			r = smt.Ite(smt.Lt(x, smt.Int64(0)), smt.Neg(r0), r0)
			return q, r
		}
		ay := smt.Int(new(big.Int).Abs(y.K))
		q0, r0 := smt.Div(absT(x), ay), smt.Mod(absT(x), ay)
		neg := smt.Lt(x, smt.Int64(0))
		if y.K.Sign() < 0 {
			q = smt.Ite(neg, q0, smt.Neg(q0))
		} else {
			q = smt.Ite(neg, smt.Neg(q0), q0)
		}
		r = smt.Ite(neg, smt.Neg(r0), r0)
		return q, r
	}
	I["(*math/big.Int).Quo"] = func(vm *VM, _ *frame, a []Value) Value {
		z := vm.bigPtr(a[0], "Quo")
		q, _ := truncDiv(vm, vm.bigGet(a[1], "Quo"), vm.bigGet(a[2], "Quo"))
		vm.bigStore(z, (q))
		return z
	}
	I["(*math/big.Int).Rem"] = func(vm *VM, _ *frame, a []Value) Value {
		z := vm.bigPtr(a[0], "Rem")
		_, r := truncDiv(vm, vm.bigGet(a[1], "Rem"), vm.bigGet(a[2], "Rem"))
		vm.bigStore(z, (r))
		return z
	}
	I["(*math/big.Int).QuoRem"] = func(vm *VM, _ *frame, a []Value) Value {
		z := vm.bigPtr(a[0], "QuoRem")
		rp := vm.bigPtr(a[3], "QuoRem")
		q, r := truncDiv(vm, vm.bigGet(a[1], "QuoRem"), vm.bigGet(a[2], "QuoRem"))
		vm.bigStore(z, (q))
		vm.bigStore(rp, r)
		return Tuple{z, rp}
	}
	I["(*math/big.Int).DivMod"] = func(vm *VM, _ *frame, a []Value) Value {
		z := vm.bigPtr(a[0], "DivMod")
		mp := vm.bigPtr(a[3], "DivMod")
		x, y := vm.bigGet(a[1], "DivMod"), vm.bigGet(a[2], "DivMod")
		if vm.Truth(fromBoolTerm(smt.Eq(y, smt.Int64(0)))) {
			vm.goPanic("division by zero")
		}
		vm.bigStore(z, (smt.Div(x, y)))
		vm.bigStore(mp, smt.Mod(x, y))
		return Tuple{z, mp}
	}
	I["(*math/big.Int).Lsh"] = func(vm *VM, _ *frame, a []Value) Value {
		z := vm.bigPtr(a[0], "Lsh")
		n := vm.concInt(a[2], "Lsh count")
		vm.bigStore(z, (smt.Mul(vm.bigGet(a[1], "Lsh"), smt.Int(pow2(n)))))
		return z
	}
	I["(*math/big.Int).Rsh"] = func(vm *VM, _ *frame, a []Value) Value {
		z := vm.bigPtr(a[0], "Rsh")
		n := vm.concInt(a[2], "Rsh count")
		vm.bigStore(z, (smt.Div(vm.bigGet(a[1], "Rsh"), smt.Int(pow2(n)))))
		return z
	}
	I["(*math/big.Int).Text"] = func(vm *VM, _ *frame, a []Value) Value {
		if vm.concInt(a[1], "Text base") != 10 {
			vmErr("big.Int.Text with a base other than 10")
		}
		return mkStr([]Atom{{Kind: aDec, T: vm.bigGet(a[0], "Text")}})
	}
	I["(*math/big.Rat).Abs"] = func(vm *VM, _ *frame, a []Value) Value {
		z := vm.bigPtr(a[0], "Abs")
		x := vm.ratGet(a[1], "Abs")
		vm.ratStore(z, rv(smt.Ite(smt.Lt(x.N, smt.Int64(0)), smt.Neg(x.N), x.N), x.D))
		return z
	}
	I["(*math/big.Rat).Quo"] = func(vm *VM, _ *frame, a []Value) Value {
		z := vm.bigPtr(a[0], "Quo")
		x := vm.ratGet(a[1], "Quo")
		y := vm.ratGet(a[2], "Quo")
		if vm.Truth(fromBoolTerm(smt.Eq(y.N, smt.Int64(0)))) {
			vm.goPanic("division by zero")
		}
		n := vm.mulTerms(x.N, y.D, "Rat.Quo")
		d := vm.mulTerms(x.D, y.N, "Rat.Quo")
		if d.Op != smt.OpIntConst {
			if vm.Truth(fromBoolTerm(smt.Lt(d, smt.Int64(0)))) {
				n, d = smt.Neg(n), smt.Neg(d)
			}
		}
		vm.ratStore(z, mkRat(n, d))
		return z
	}
	I["(*math/big.Rat).Inv"] = func(vm *VM, _ *frame, a []Value) Value {
		z := vm.bigPtr(a[0], "Inv")
		x := vm.ratGet(a[1], "Inv")
		if vm.Truth(fromBoolTerm(smt.Eq(x.N, smt.Int64(0)))) {
			vm.goPanic("division by zero")
		}
		n, d := x.D, x.N
		if d.Op != smt.OpIntConst {
			if vm.Truth(fromBoolTerm(smt.Lt(d, smt.Int64(0)))) {
				n, d = smt.Neg(n), smt.Neg(d)
			}
		}
		vm.ratStore(z, mkRat(n, d))
		return z
	}
	I["(*math/big.Int).Sign"] = func(vm *VM, _ *frame, a []Value) Value {
		x := vm.bigGet(a[0], "Sign")
		return fromIntTerm(cmpTerm(x, smt.Int64(0)), 64, true)
	}
	I["(*math/big.Int).String"] = func(vm *VM, _ *frame, a []Value) Value {
		p, _ := a[0].(*Value)
		if p == nil {
			return "<nil>"
		}
		return mkStr([]Atom{{Kind: aDec, T: vm.bigGet(a[0], "String")}})
	}
	I["(*math/big.Int).IsInt64"] = func(vm *VM, _ *frame, a []Value) Value {
		x := vm.bigGet(a[0], "IsInt64")
		lo := smt.Int(new(big.Int).Neg(pow2(63)))
		hi := smt.Int(new(big.Int).Sub(pow2(63), big.NewInt(1)))
		return fromBoolTerm(smt.And(smt.Le(lo, x), smt.Le(x, hi)))
	}
	I["(*math/big.Int).IsUint64"] = func(vm *VM, _ *frame, a []Value) Value {
		x := vm.bigGet(a[0], "IsUint64")
		hi := smt.Int(new(big.Int).Sub(pow2(64), big.NewInt(1)))
		return fromBoolTerm(smt.And(smt.Le(smt.Int64(0), x), smt.Le(x, hi)))
	}
	I["(*math/big.Int).BitLen"] = func(vm *VM, _ *frame, a []Value) Value {
		x := vm.bigGet(a[0], "BitLen")
		if x.Op != smt.OpIntConst {
			vmErr("big.Int.BitLen on a symbolic value")
		}
		return int64(x.K.BitLen())
	}
	I["(*math/big.Int).Int64"] = func(vm *VM, _ *frame, a []Value) Value {
		x := vm.bigGet(a[0], "Int64")
		return fromIntTerm(wrapTerm(x, 64, true), 64, true)
	}
	I["(*math/big.Int).Uint64"] = func(vm *VM, _ *frame, a []Value) Value {
		x := vm.bigGet(a[0], "Uint64")
		// low 64 bits of |x|
		ax := smt.Ite(smt.Lt(x, smt.Int64(0)), smt.Neg(x), x)
		return fromIntTerm(wrapTerm(ax, 64, false), 64, false)
	}
	I["(*math/big.Int).SetString"] = func(vm *VM, _ *frame, a []Value) Value {
		z := vm.bigPtr(a[0], "SetString")
		base := vm.concInt(a[2], "SetString base")
		t, ok := vm.parseBigString(a[1], base)
		if !ok {
			return Tuple{(*Value)(nil), false}
		}
		vm.bigStore(z, (t))
		return Tuple{z, true}
	}

	// ---- Rat
	I["math/big.NewRat"] = func(vm *VM, _ *frame, a []Value) Value {
		n := intToTerm(a[0], 64, true)
		d := intToTerm(a[1], 64, true)
		if vm.Truth(fromBoolTerm(smt.Eq(d, smt.Int64(0)))) {
			vm.goPanic("division by zero")
		}
		if d.Op != smt.OpIntConst {
			if vm.Truth(fromBoolTerm(smt.Lt(d, smt.Int64(0)))) {
				n, d = smt.Neg(n), smt.Neg(d)
			}
		}
		r := mkRat(n, d)
		r.Buf = &bigBuf{}
		return vm.newCell(r)
	}
	I["(*math/big.Rat).SetFrac"] = func(vm *VM, _ *frame, a []Value) Value {
		z := vm.bigPtr(a[0], "SetFrac")
		n := vm.bigGet(a[1], "SetFrac")
		d := vm.bigGet(a[2], "SetFrac")
		if vm.Truth(fromBoolTerm(smt.Eq(d, smt.Int64(0)))) {
			vm.goPanic("division by zero")
		}
		if d.Op != smt.OpIntConst {
			if vm.Truth(fromBoolTerm(smt.Lt(d, smt.Int64(0)))) {
				n, d = smt.Neg(n), smt.Neg(d)
			}
		}
		vm.ratStore(z, mkRat(n, d))
		return z
	}
	I["(*math/big.Rat).SetFrac64"] = func(vm *VM, _ *frame, a []Value) Value {
		z := vm.bigPtr(a[0], "SetFrac64")
		n := intToTerm(a[1], 64, true)
		d := intToTerm(a[2], 64, true)
		if vm.Truth(fromBoolTerm(smt.Eq(d, smt.Int64(0)))) {
			vm.goPanic("division by zero")
		}
		if d.Op != smt.OpIntConst {
			if vm.Truth(fromBoolTerm(smt.Lt(d, smt.Int64(0)))) {
				n, d = smt.Neg(n), smt.Neg(d)
			}
		}
		vm.ratStore(z, mkRat(n, d))
		return z
	}
	I["(*math/big.Rat).SetInt"] = func(vm *VM, _ *frame, a []Value) Value {
		z := vm.bigPtr(a[0], "SetInt")
		vm.ratStore(z, rv(vm.bigGet(a[1], "SetInt"), smt.Int64(1)))
		return z
	}
	I["(*math/big.Rat).SetInt64"] = func(vm *VM, _ *frame, a []Value) Value {
		z := vm.bigPtr(a[0], "SetInt64")
		vm.ratStore(z, rv(intToTerm(a[1], 64, true), smt.Int64(1)))
		return z
	}
	I["(*math/big.Rat).Set"] = func(vm *VM, _ *frame, a []Value) Value {
		z := vm.bigPtr(a[0], "Set")
		vm.ratStore(z, vm.ratGet(a[1], "Set"))
		return z
	}
	ratAddSub := func(name string, sub bool) {
		I["(*math/big.Rat)."+name] = func(vm *VM, _ *frame, a []Value) Value {
			z := vm.bigPtr(a[0], name)
			x := vm.ratGet(a[1], name)
			y := vm.ratGet(a[2], name)
			var n, d *smt.Term
			if smt.Equal(x.D, y.D) {
				d = x.D
				if sub {
					n = smt.Sub(x.N, y.N)
				} else {
					n = smt.Add(x.N, y.N)
				}
			} else {
				l := vm.mulTerms(x.N, y.D, name)
				r := vm.mulTerms(y.N, x.D, name)
				if sub {
					n = smt.Sub(l, r)
				} else {
					n = smt.Add(l, r)
				}
				d = vm.mulTerms(x.D, y.D, name)
			}
			vm.ratStore(z, mkRat(n, d))
			return z
		}
	}
	ratAddSub("Add", false)
	ratAddSub("Sub", true)
	I["(*math/big.Rat).Mul"] = func(vm *VM, _ *frame, a []Value) Value {
		z := vm.bigPtr(a[0], "Mul")
		x := vm.ratGet(a[1], "Mul")
		y := vm.ratGet(a[2], "Mul")
		vm.ratStore(z, mkRat(vm.mulTerms(x.N, y.N, "Rat.Mul"), vm.mulTerms(x.D, y.D, "Rat.Mul")))
		return z
	}
	I["(*math/big.Rat).Neg"] = func(vm *VM, _ *frame, a []Value) Value {
		z := vm.bigPtr(a[0], "Neg")
		x := vm.ratGet(a[1], "Neg")
		vm.ratStore(z, rv(smt.Neg(x.N), x.D))
		return z
	}
	I["(*math/big.Rat).Cmp"] = func(vm *VM, _ *frame, a []Value) Value {
		x := vm.ratGet(a[0], "Cmp")
		y := vm.ratGet(a[1], "Cmp")
		l := vm.mulTerms(x.N, y.D, "Rat.Cmp")
		r := vm.mulTerms(y.N, x.D, "Rat.Cmp")
		return fromIntTerm(cmpTerm(l, r), 64, true)
	}
	I["(*math/big.Rat).Sign"] = func(vm *VM, _ *frame, a []Value) Value {
		x := vm.ratGet(a[0], "Sign")
		return fromIntTerm(cmpTerm(x.N, smt.Int64(0)), 64, true)
	}
	I["(*math/big.Rat).Num"] = func(vm *VM, _ *frame, a []Value) Value {
		x := vm.ratGet(a[0], "Num")
		if x.N.Op == smt.OpIntConst && x.D.Op == smt.OpIntConst {
			n, _ := vm.ratNormalize(x)
			return vm.newBig(n)
		}
		return vm.newCell(BigVal{Lazy: &normPart{N: x.N, D: x.D, Num: true}})
	}
	I["(*math/big.Rat).Denom"] = func(vm *VM, _ *frame, a []Value) Value {
		x := vm.ratGet(a[0], "Denom")
		if x.N.Op == smt.OpIntConst && x.D.Op == smt.OpIntConst {
			_, d := vm.ratNormalize(x)
			return vm.newBig(d)
		}
		return vm.newCell(BigVal{Lazy: &normPart{N: x.N, D: x.D, Num: false}})
	}
	I["(*math/big.Rat).IsInt"] = func(vm *VM, _ *frame, a []Value) Value {
		x := vm.ratGet(a[0], "IsInt")
		_, d := vm.ratNormalize(x)
		return fromBoolTerm(smt.Eq(d, smt.Int64(1)))
	}
	I["(*math/big.Rat).String"] = func(vm *VM, _ *frame, a []Value) Value {
		x := vm.ratGet(a[0], "String")
		n, d := vm.ratNormalize(x)
		return mkStr([]Atom{{Kind: aDec, T: n}, {Kind: aConc, S: "/"}, {Kind: aDec, T: d}})
	}
	I["(*math/big.Rat).RatString"] = func(vm *VM, _ *frame, a []Value) Value {
		x := vm.ratGet(a[0], "RatString")
		n, d := vm.ratNormalize(x)
		if vm.Truth(fromBoolTerm(smt.Eq(d, smt.Int64(1)))) {
			return mkStr([]Atom{{Kind: aDec, T: n}})
		}
		return mkStr([]Atom{{Kind: aDec, T: n}, {Kind: aConc, S: "/"}, {Kind: aDec, T: d}})
	}
	I["(*math/big.Rat).FloatString"] = func(vm *VM, _ *frame, a []Value) Value {
		x := vm.ratGet(a[0], "FloatString")
		if x.N.Op != smt.OpIntConst || x.D.Op != smt.OpIntConst {
			vmErr("big.Rat.FloatString on a symbolic value")
		}
		return new(big.Rat).SetFrac(x.N.K, x.D.K).FloatString(vm.concInt(a[1], "prec"))
	}
	I["(*math/big.Rat).SetString"] = func(vm *VM, _ *frame, a []Value) Value {
		z := vm.bigPtr(a[0], "SetString")
		r, ok := vm.parseRatString(a[1])
		if !ok {
			return Tuple{(*Value)(nil), false}
		}
		vm.store(z, r)
		return Tuple{z, true}
	}
}

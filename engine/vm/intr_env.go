package vm

import (
	"strings"
	"go/types"
	"sort"

	"github.com/formancehq/numscript/zzverif/smt"
)

// exitSignal models os.Exit inside zzvrt.CLI.
type exitSignal struct{ code int }

func (vm *VM) fileKind(v Value) string {
	p, ok := v.(*Value)
	if !ok || p == nil {
		return ""
	}
	if n, ok := (*p).(*Native); ok {
		return n.Kind
	}
	return ""
}

func (vm *VM) emit(kind string, v Value) {
	switch kind {
	case "stdout":
		vm.stdout = append(vm.stdout, v)
	case "stderr":
		vm.stderr = append(vm.stderr, v)
	case "builder":
		vm.intrinsics["(*strings.Builder).WriteString"](vm, nil, []Value{vm.curBuilder, v})
	default:
		vmErr("write to an unknown file object")
	}
}

func joinOut(parts []Value) Value {
	var acc Value = ""
	for _, p := range parts {
		switch x := p.(type) {
		case string, *SymStr, *Opaque:
			acc = concatStr(acc, x)
		case *JSONBlob:
			acc = concatStr(acc, &Opaque{What: "json", Blob: x})
		case *SymBytes:
			acc = concatStr(acc, x.S)
		case Slice:
			acc = concatStr(acc, strFromBytes([]Value(x)))
		default:
			acc = concatStr(acc, &Opaque{What: "output"})
		}
	}
	return acc
}

// deepEq builds the condition under which two VM values are structurally equal.
func (vm *VM) deepEq(a, b Value, depth int) *smt.Term {
	if depth > 40 {
		vmErr("deepEq: too deep")
	}
	switch x := a.(type) {
	case nil:
		return smt.Bool(b == nil)
	case bool, int64, *smt.Term:
		switch b.(type) {
		case bool, int64, *smt.Term:
			return smt.Eq(toTerm(a), toTerm(b))
		}
		return smt.False
	case float64:
		y, ok := b.(float64)
		return smt.Bool(ok && x == y)
	case string, *SymStr:
		switch b.(type) {
		case string, *SymStr:
			c, ok := strEq(a, b)
			if !ok {
				vmErr("deepEq: cannot compare strings %s and %s", describe(a), describe(b))
			}
			return c
		}
		return smt.False
	case BigVal:
		y, ok := b.(BigVal)
		if !ok {
			return smt.False
		}
		return smt.Eq(vm.forceBig(x), vm.forceBig(y))
	case RatVal:
		y, ok := b.(RatVal)
		if !ok {
			return smt.False
		}
		return smt.Eq(vm.mulTerms(x.N, y.D, "deepEq"), vm.mulTerms(y.N, x.D, "deepEq"))
	case *Value:
		y, ok := b.(*Value)
		if !ok {
			return smt.False
		}
		if x == nil || y == nil {
			return smt.Bool(x == nil && y == nil)
		}
		if x == y {
			return smt.True
		}
		return vm.deepEq(*x, *y, depth+1)
	case Struct:
		y, ok := b.(Struct)
		if !ok || len(x) != len(y) {
			return smt.False
		}
		c := smt.True
		for i := range x {
			c = smt.And(c, vm.deepEq(x[i], y[i], depth+1))
		}
		return c
	case Array:
		y, ok := b.(Array)
		if !ok || len(x) != len(y) {
			return smt.False
		}
		c := smt.True
		for i := range x {
			c = smt.And(c, vm.deepEq(x[i], y[i], depth+1))
		}
		return c
	case Slice:
		y, ok := b.(Slice)
		if !ok || len(x) != len(y) {
			return smt.False
		}
		// JSON does not distinguish nil from empty except as null/[]: keep the distinction
		if (x == nil) != (y == nil) {
			return smt.False
		}
		c := smt.True
		for i := range x {
			c = smt.And(c, vm.deepEq(x[i], y[i], depth+1))
		}
		return c
	case *Map:
		y, ok := b.(*Map)
		if !ok {
			return smt.False
		}
		if x == nil || y == nil {
			return smt.Bool(x == nil && y == nil)
		}
		if len(x.entries) != len(y.entries) {
			return smt.False
		}
		c := smt.True
		for _, e := range x.entries {
			v, found := vm.mapLookup(y, e.K)
			if !found {
				return smt.False
			}
			c = smt.And(c, vm.deepEq(e.V, v, depth+1))
		}
		return c
	case Iface:
		y, ok := b.(Iface)
		if !ok {
			return smt.False
		}
		if x.T == nil || y.T == nil {
			return smt.Bool(x.T == nil && y.T == nil)
		}
		if !types.Identical(x.T, y.T) {
			return smt.False
		}
		return vm.deepEq(x.V, y.V, depth+1)
	}
	vmErr("deepEq: unsupported value %T", a)
	return nil
}

func registerEnv(vm *VM) {
	I := vm.intrinsics
	z := func(name string, f Intrinsic) { I[zzPkg+name] = f }

	I["os.Exit"] = func(vm *VM, _ *frame, a []Value) Value {
		panic(exitSignal{vm.concInt(a[0], "exit code")})
	}
	I["(*os.File).Write"] = func(vm *VM, _ *frame, a []Value) Value {
		vm.emit(vm.fileKind(a[0]), a[1])
		return Tuple{int64(0), Iface{}}
	}
	I["(*os.File).WriteString"] = func(vm *VM, _ *frame, a []Value) Value {
		vm.emit(vm.fileKind(a[0]), a[1])
		return Tuple{int64(0), Iface{}}
	}
	I["fmt.Print"] = func(vm *VM, _ *frame, a []Value) Value {
		for _, x := range a[0].(Slice) {
			vm.emit("stdout", vm.fmtValue('v', x))
		}
		return Tuple{int64(0), Iface{}}
	}
	I["fmt.Println"] = func(vm *VM, _ *frame, a []Value) Value {
		for i, x := range a[0].(Slice) {
			if i > 0 {
				vm.emit("stdout", " ")
			}
			vm.emit("stdout", vm.fmtValue('v', x))
		}
		vm.emit("stdout", "\n")
		return Tuple{int64(0), Iface{}}
	}
	I["fmt.Printf"] = func(vm *VM, _ *frame, a []Value) Value {
		vm.emit("stdout", vm.sprintf(a[0], a[1].(Slice)))
		return Tuple{int64(0), Iface{}}
	}
	// fmt.Fprint* to the process streams (any other writer is not modelled)
	wkind := func(vm *VM, w Value) string {
		ifc, ok := w.(Iface)
		if !ok || ifc.T == nil {
			vmErr("fmt.Fprint* to a nil writer")
		}
		if strings.HasSuffix(ifc.T.String(), "strings.Builder") {
			vm.curBuilder = ifc.V
			return "builder"
		}
		return vm.fileKind(ifc.V)
	}
	I["fmt.Fprint"] = func(vm *VM, _ *frame, a []Value) Value {
		k := wkind(vm, a[0])
		for _, x := range a[1].(Slice) {
			vm.emit(k, vm.fmtValue('v', x))
		}
		return Tuple{int64(0), Iface{}}
	}
	I["fmt.Fprintln"] = func(vm *VM, _ *frame, a []Value) Value {
		k := wkind(vm, a[0])
		for i, x := range a[1].(Slice) {
			if i > 0 {
				vm.emit(k, " ")
			}
			vm.emit(k, vm.fmtValue('v', x))
		}
		vm.emit(k, "\n")
		return Tuple{int64(0), Iface{}}
	}
	I["fmt.Fprintf"] = func(vm *VM, _ *frame, a []Value) Value {
		vm.emit(wkind(vm, a[0]), vm.sprintf(a[1], a[2].(Slice)))
		return Tuple{int64(0), Iface{}}
	}
	I["os.ReadFile"] = func(vm *VM, _ *frame, a []Value) Value {
		path, ok := a[0].(string)
		if !ok {
			vmErr("os.ReadFile with a symbolic path")
		}
		c, found := vm.vfs[path]
		if !found {
			ep := vm.Pkgs["errors"]
			if ep == nil {
				vmErr("errors package not loaded")
			}
			cell := vm.newCell(Struct{"open " + path + ": no such file or directory"})
			return Tuple{Slice(nil), Iface{T: typesPointer(ep.Type("errorString").Type()), V: cell}}
		}
		switch x := c.(type) {
		case string:
			return Tuple{Slice(strBytes(x)), Iface{}}
		case *JSONBlob:
			return Tuple{x, Iface{}}
		}
		return Tuple{c, Iface{}}
	}
	I["io.ReadAll"] = func(vm *VM, _ *frame, a []Value) Value {
		ifc, _ := a[0].(Iface)
		if vm.fileKind(ifc.V) != "stdin" {
			vmErr("io.ReadAll on something other than os.Stdin")
		}
		if vm.stdin == nil {
			return Tuple{Slice{}, Iface{}}
		}
		return Tuple{vm.stdin, Iface{}}
	}
	I["encoding/json.MarshalIndent"] = func(vm *VM, _ *frame, a []Value) Value {
		ifc, ok := a[0].(Iface)
		if !ok || ifc.T == nil {
			return Tuple{&JSONBlob{}, Iface{}}
		}
		return Tuple{&JSONBlob{T: ifc.T, V: copyVal(ifc.V)}, Iface{}}
	}
	I["sort.Slice"] = func(vm *VM, _ *frame, a []Value) Value {
		ifc := a[0].(Iface)
		s, ok := ifc.V.(Slice)
		if !ok {
			vmErr("sort.Slice of %T", ifc.V)
		}
		old := make([]Value, len(s))
		copy(old, s)
		vm.undo = append(vm.undo, undoEntry{f: func() { copy(s, old) }})
		less := a[1]
		// same algorithm as the program's own sort.Slice (same Go release), comparator run in the VM
		sort.Slice([]Value(s), func(i, j int) bool {
			return vm.Truth(vm.Call(less, []Value{int64(i), int64(j)}))
		})
		return nil
	}

	// ---- zzvrt environment API
	z("TempFile", func(vm *VM, _ *frame, a []Value) Value {
		name, _ := a[0].(string)
		if vm.vfs == nil {
			vm.vfs = map[string]Value{}
		}
		p := "/zzvirt/" + name
		vm.vfs[p] = a[1]
		return p
	})
	z("JSONFile", func(vm *VM, _ *frame, a []Value) Value {
		name, _ := a[0].(string)
		if vm.vfs == nil {
			vm.vfs = map[string]Value{}
		}
		p := "/zzvirt/" + name
		ifc := a[1].(Iface)
		vm.vfs[p] = &JSONBlob{T: ifc.T, V: copyVal(ifc.V)}
		return p
	})
	z("JSONString", func(vm *VM, _ *frame, a []Value) Value {
		ifc := a[0].(Iface)
		return &Opaque{What: "json text", Blob: &JSONBlob{T: ifc.T, V: copyVal(ifc.V)}}
	})
	z("SetStdinJSON", func(vm *VM, _ *frame, a []Value) Value {
		ifc := a[0].(Iface)
		vm.stdin = &JSONBlob{T: ifc.T, V: copyVal(ifc.V)}
		return nil
	})
	z("CLI", func(vm *VM, _ *frame, a []Value) (res Value) {
		vm.stdout, vm.stderr = nil, nil
		exited, code := false, 0
		func() {
			defer func() {
				if r := recover(); r != nil {
					if e, ok := r.(exitSignal); ok {
						exited, code = true, e.code
						return
					}
					panic(r)
				}
			}()
			depth := len(vm.stack)
			defer func() { vm.stack = vm.stack[:depth] }()
			vm.Call(a[0], nil)
		}()
		// CLIOut{Exited bool; Code int; Stdout, Stderr string}
		return Struct{exited, int64(code), joinOut(vm.stdout), joinOut(vm.stderr)}
	})
	z("StdoutIsJSONOf", func(vm *VM, _ *frame, a []Value) Value {
		want := a[0].(Iface)
		var blob *JSONBlob
		n := 0
		for _, p := range vm.stdout {
			if b, ok := p.(*JSONBlob); ok {
				blob = b
				n++
			} else if s, ok := p.(string); ok && s == "" {
				continue
			} else {
				n += 100
			}
		}
		if blob == nil || n != 1 {
			return false
		}
		if blob.T == nil || want.T == nil || !types.Identical(blob.T, want.T) {
			return false
		}
		return fromBoolTerm(vm.deepEq(blob.V, want.V, 0))
	})
}

// forceBig returns the term of a big value, normalising a lazy numerator/denominator.
func (vm *VM) forceBig(b BigVal) *smt.Term {
	if b.T != nil {
		return b.T
	}
	if b.Lazy != nil {
		n, d := vm.ratNormalize(rv(b.Lazy.N, b.Lazy.D))
		if b.Lazy.Num {
			return n
		}
		return d
	}
	return smt.Int64(0)
}

// Package vm is a symbolic interpreter for go/ssa: the real numscript code is
// executed over values that are either concrete Go data or SMT terms.
package vm

import (
	"fmt"
	"go/types"
	"math/big"
	"strings"

	"github.com/formancehq/numscript/zzverif/smt"
	"golang.org/x/tools/go/ssa"
)

// Value is one of:
//
//	bool, int64 (every machine integer, two's complement bits), float64, string
//	*smt.Term            symbolic bool / machine integer
//	*SymStr              string with symbolic parts
//	Struct, Array, Slice, Tuple
//	*Value               pointer (nil pointer = (*Value)(nil))
//	*Map
//	Iface                interface value (T == nil: nil interface)
//	*Closure, *ssa.Function, *ssa.Builtin
//	BigVal, RatVal       contents of a math/big.Int / math/big.Rat
//	*Native              opaque native object (compiled regexp, ...)
//	*mapIter, *strIter
type Value interface{}

type Struct []Value
type Array []Value
type Slice []Value
type Tuple []Value

type Iface struct {
	T types.Type
	V Value
}

type Closure struct {
	Fn  *ssa.Function
	Env []Value
}

// BigVal is the mathematical integer held by a big.Int (or a type with the
// same underlying struct, such as interpreter.MonetaryInt).
type BigVal struct {
	T *smt.Term
	// Buf identifies the backing array the real big.Int would use: struct copies
	// share it, operations write into the receiver's array when it has one. Ver is
	// the array's version this value was valid for (see aliasing hazards).
	Buf *bigBuf
	Ver int
	// Lazy: the value is the numerator (Num) or denominator of N/D in lowest terms,
	// not yet computed; Int.Div of such a pair is floor(N/D) without normalising.
	Lazy *normPart
}

type bigBuf struct{ ver int }

type normPart struct {
	N, D *smt.Term
	Num  bool
}

// RatVal is num/den held by a big.Rat; den > 0 always. The pair is NOT
// necessarily in lowest terms: Num()/Denom()/String() normalise on demand.
// RatVal: an unnormalised fraction. Buf/Ver play the same role as for BigVal: every
// shallow struct copy of a big.Rat shares the digit arrays of the original.
type RatVal struct {
	N, D *smt.Term
	Buf  *bigBuf
	Ver  int
}

func rv(n, d *smt.Term) RatVal { return RatVal{N: n, D: d} }

type Native struct {
	Kind string
	V    interface{}
}

// SymBytes is []byte(s) for a string whose byte length is not known (decimal
// atoms): it can only be converted back to a string.
type SymBytes struct{ S Value }

// JSONBlob is the result of json.Marshal in the VM: it remembers the value
// (value-carrying stub); Unmarshal copies it back into a target of the same type.
type JSONBlob struct {
	T types.Type
	V Value
}

type mapEntry struct{ K, V Value }

// Map keeps insertion order; entries slices are copy-on-write so that undo is a
// single header restore.
type Map struct {
	entries []mapEntry
	id      int
}

type mapIter struct {
	m    *Map
	snap []mapEntry
	i    int
}

type strIter struct {
	s string
	i int
}

// VMError is raised (as a Go panic) when the engine cannot continue soundly:
// the path is reported inconclusive, never as a violation.
type VMError struct{ Msg string }

func (e VMError) Error() string { return "vm: " + e.Msg }

func vmErr(format string, a ...interface{}) {
	panic(VMError{fmt.Sprintf(format, a...)})
}

// GoPanic models a Go-level panic of the code under test.
type GoPanic struct {
	Msg   string
	Val   Value
	Stack []string
}

// pathAbort ends a path silently (failed assumption / infeasible).
type pathAbort struct{ reason string }

func isBigLike(vm *VM, t types.Type) bool {
	return vm.bigIntUnder != nil && types.Identical(t.Underlying(), vm.bigIntUnder)
}
func isRatLike(vm *VM, t types.Type) bool {
	return vm.bigRatUnder != nil && types.Identical(t.Underlying(), vm.bigRatUnder)
}

// zero returns the zero value of t.
func (vm *VM) zero(t types.Type) Value {
	if isBigLike(vm, t) {
		return BigVal{T: smt.Int64(0)}
	}
	if isRatLike(vm, t) {
		return rv(smt.Int64(0), smt.Int64(1))
	}
	switch u := t.Underlying().(type) {
	case *types.Basic:
		switch {
		case u.Info()&types.IsBoolean != 0:
			return false
		case u.Info()&types.IsInteger != 0:
			return int64(0)
		case u.Info()&types.IsFloat != 0:
			return float64(0)
		case u.Info()&types.IsString != 0:
			return ""
		case u.Kind() == types.UnsafePointer:
			return (*Value)(nil)
		case u.Kind() == types.UntypedNil:
			return nil
		}
		vmErr("zero: unsupported basic type %s", t)
	case *types.Struct:
		s := make(Struct, u.NumFields())
		for i := range s {
			s[i] = vm.zero(u.Field(i).Type())
		}
		return s
	case *types.Array:
		a := make(Array, u.Len())
		for i := range a {
			a[i] = vm.zero(u.Elem())
		}
		return a
	case *types.Pointer:
		return (*Value)(nil)
	case *types.Slice:
		return Slice(nil)
	case *types.Map:
		return (*Map)(nil)
	case *types.Interface:
		return Iface{}
	case *types.Signature:
		return (*Closure)(nil)
	case *types.Chan:
		return nil
	case *types.Tuple:
		tu := make(Tuple, u.Len())
		for i := range tu {
			tu[i] = vm.zero(u.At(i).Type())
		}
		return tu
	case *types.TypeParam:
		vmErr("zero: uninstantiated type parameter %s", t)
	}
	vmErr("zero: unsupported type %s", t)
	return nil
}

// copyVal copies value-typed aggregates (structs, arrays); references share.
func copyVal(v Value) Value {
	switch x := v.(type) {
	case Struct:
		c := make(Struct, len(x))
		for i, e := range x {
			c[i] = copyVal(e)
		}
		return c
	case Array:
		c := make(Array, len(x))
		for i, e := range x {
			c[i] = copyVal(e)
		}
		return c
	case Tuple:
		c := make(Tuple, len(x))
		for i, e := range x {
			c[i] = copyVal(e)
		}
		return c
	}
	return v
}

func isNilValue(v Value) bool {
	switch x := v.(type) {
	case nil:
		return true
	case *Value:
		return x == nil
	case Slice:
		return x == nil
	case *Map:
		return x == nil
	case Iface:
		return x.T == nil
	case *Closure:
		return x == nil
	case *ssa.Function:
		return x == nil
	}
	return false
}

// toTerm converts a scalar value to a term.
func toTerm(v Value) *smt.Term {
	switch x := v.(type) {
	case *smt.Term:
		return x
	case int64:
		return smt.Int64(x)
	case bool:
		return smt.Bool(x)
	}
	vmErr("toTerm: not a scalar: %T", v)
	return nil
}

func uintTerm(x int64, bits int, signed bool) *smt.Term {
	if signed || x >= 0 {
		return smt.Int64(x)
	}
	// unsigned 64-bit with the top bit set
	b := new(big.Int).SetUint64(uint64(x))
	return smt.Int(b)
}

// intToTerm converts a machine integer of the given type to a term of its
// mathematical value.
func intToTerm(v Value, bits int, signed bool) *smt.Term {
	switch x := v.(type) {
	case *smt.Term:
		return x
	case int64:
		return uintTerm(x, bits, signed)
	}
	vmErr("intToTerm: %T", v)
	return nil
}

// fromTerm lowers constant terms back to concrete values.
func fromIntTerm(t *smt.Term, bits int, signed bool) Value {
	if t.Op == smt.OpIntConst {
		if signed {
			if t.K.IsInt64() {
				return t.K.Int64()
			}
		} else if t.K.IsUint64() {
			return int64(t.K.Uint64())
		}
		vmErr("fromIntTerm: constant %s out of range for %d-bit", t.K, bits)
	}
	return t
}

func fromBoolTerm(t *smt.Term) Value {
	if t.Op == smt.OpBoolConst {
		return t.B
	}
	return t
}

// describe renders a value for diagnostics / samples.
func describe(v Value) string {
	return describeDepth(v, 0)
}

func describeDepth(v Value, d int) string {
	if d > 6 {
		return "…"
	}
	switch x := v.(type) {
	case nil:
		return "nil"
	case bool, int64, float64:
		return fmt.Sprint(x)
	case string:
		return fmt.Sprintf("%q", x)
	case *smt.Term:
		return x.String()
	case *SymStr:
		return x.describe()
	case BigVal:
		if x.T == nil {
			return "big(lazy)"
		}
		return "big(" + x.T.String() + ")"
	case RatVal:
		return "rat(" + x.N.String() + "/" + x.D.String() + ")"
	case Struct:
		parts := make([]string, len(x))
		for i, e := range x {
			parts[i] = describeDepth(e, d+1)
		}
		return "{" + strings.Join(parts, " ") + "}"
	case Array:
		parts := make([]string, len(x))
		for i, e := range x {
			parts[i] = describeDepth(e, d+1)
		}
		return "[" + strings.Join(parts, " ") + "]"
	case Slice:
		if x == nil {
			return "nil-slice"
		}
		parts := make([]string, len(x))
		for i, e := range x {
			parts[i] = describeDepth(e, d+1)
		}
		return "[]{" + strings.Join(parts, " ") + "}"
	case Tuple:
		parts := make([]string, len(x))
		for i, e := range x {
			parts[i] = describeDepth(e, d+1)
		}
		return "(" + strings.Join(parts, ", ") + ")"
	case *Value:
		if x == nil {
			return "nil-ptr"
		}
		return "&" + describeDepth(*x, d+1)
	case *Map:
		if x == nil {
			return "nil-map"
		}
		parts := make([]string, len(x.entries))
		for i, e := range x.entries {
			parts[i] = describeDepth(e.K, d+1) + ":" + describeDepth(e.V, d+1)
		}
		return "map{" + strings.Join(parts, " ") + "}"
	case Iface:
		if x.T == nil {
			return "nil-iface"
		}
		return x.T.String() + "(" + describeDepth(x.V, d+1) + ")"
	case *Closure:
		if x == nil {
			return "nil-func"
		}
		return "closure:" + x.Fn.String()
	case *ssa.Function:
		return "func:" + x.String()
	case *Native:
		return "native:" + x.Kind
	}
	return fmt.Sprintf("%T", v)
}

package vm

import (
	"unicode/utf8"

	"github.com/formancehq/numscript/zzverif/smt"
)

// inRange decides lo <= b <= hi for a possibly symbolic byte.
func (vm *VM) inRange(b Value, lo, hi int64) bool {
	switch x := b.(type) {
	case int64:
		return x >= lo && x <= hi
	case *smt.Term:
		return vm.Decide(smt.And(smt.Le(smt.Int64(lo), x), smt.Le(x, smt.Int64(hi))))
	}
	vmErr("inRange: %T", b)
	return false
}

// runeCount is an exact model of utf8.RuneCountInString over bytes that may be
// symbolic: the decoder's case analysis (first byte class, accept ranges of the
// second byte, continuation bytes) becomes solver decisions. Invalid or short
// sequences count one rune per byte, as the standard library does.
func (vm *VM) runeCount(bs []Value) int {
	n := 0
	i := 0
	for i < len(bs) {
		n++
		b := bs[i]
		if vm.inRange(b, 0x00, 0x7F) {
			i++
			continue
		}
		// (size, second-byte accept range)
		size := 0
		lo2, hi2 := int64(0x80), int64(0xBF)
		switch {
		case vm.inRange(b, 0xC2, 0xDF):
			size = 2
		case vm.inRange(b, 0xE0, 0xE0):
			size, lo2 = 3, 0xA0
		case vm.inRange(b, 0xE1, 0xEC):
			size = 3
		case vm.inRange(b, 0xED, 0xED):
			size, hi2 = 3, 0x9F
		case vm.inRange(b, 0xEE, 0xEF):
			size = 3
		case vm.inRange(b, 0xF0, 0xF0):
			size, lo2 = 4, 0x90
		case vm.inRange(b, 0xF1, 0xF3):
			size = 4
		case vm.inRange(b, 0xF4, 0xF4):
			size, hi2 = 4, 0x8F
		default:
			// invalid first byte
			i++
			continue
		}
		if i+size > len(bs) {
			i++
			continue
		}
		if !vm.inRange(bs[i+1], lo2, hi2) {
			i++
			continue
		}
		ok := true
		for k := 2; k < size; k++ {
			if !vm.inRange(bs[i+k], 0x80, 0xBF) {
				ok = false
				break
			}
		}
		if !ok {
			i++
			continue
		}
		i += size
	}
	return n
}

// decodeRunes is the exact UTF-8 decoder over possibly symbolic bytes: one rune
// value (int64 or term) per decoded character, U+FFFD for every invalid byte.
func (vm *VM) decodeRunes(bs []Value) []Value {
	var out []Value
	i := 0
	tm := func(v Value) *smt.Term { return toTerm(v) }
	for i < len(bs) {
		b := bs[i]
		if vm.inRange(b, 0x00, 0x7F) {
			out = append(out, b)
			i++
			continue
		}
		size := 0
		lo2, hi2 := int64(0x80), int64(0xBF)
		switch {
		case vm.inRange(b, 0xC2, 0xDF):
			size = 2
		case vm.inRange(b, 0xE0, 0xE0):
			size, lo2 = 3, 0xA0
		case vm.inRange(b, 0xE1, 0xEC):
			size = 3
		case vm.inRange(b, 0xED, 0xED):
			size, hi2 = 3, 0x9F
		case vm.inRange(b, 0xEE, 0xEF):
			size = 3
		case vm.inRange(b, 0xF0, 0xF0):
			size, lo2 = 4, 0x90
		case vm.inRange(b, 0xF1, 0xF3):
			size = 4
		case vm.inRange(b, 0xF4, 0xF4):
			size, hi2 = 4, 0x8F
		}
		ok := size > 0 && i+size <= len(bs) && vm.inRange(bs[i+1], lo2, hi2)
		for k := 2; ok && k < size; k++ {
			ok = vm.inRange(bs[i+k], 0x80, 0xBF)
		}
		if !ok {
			out = append(out, int64(0xFFFD))
			i++
			continue
		}
		var r *smt.Term
		switch size {
		case 2:
			r = smt.Add(smt.Mul(smt.Sub(tm(b), smt.Int64(0xC0)), smt.Int64(64)), smt.Sub(tm(bs[i+1]), smt.Int64(0x80)))
		case 3:
			r = smt.Add(smt.Add(smt.Mul(smt.Sub(tm(b), smt.Int64(0xE0)), smt.Int64(4096)), smt.Mul(smt.Sub(tm(bs[i+1]), smt.Int64(0x80)), smt.Int64(64))), smt.Sub(tm(bs[i+2]), smt.Int64(0x80)))
		case 4:
			r = smt.Add(smt.Add(smt.Add(smt.Mul(smt.Sub(tm(b), smt.Int64(0xF0)), smt.Int64(262144)), smt.Mul(smt.Sub(tm(bs[i+1]), smt.Int64(0x80)), smt.Int64(4096))),
				smt.Mul(smt.Sub(tm(bs[i+2]), smt.Int64(0x80)), smt.Int64(64))), smt.Sub(tm(bs[i+3]), smt.Int64(0x80)))
		}
		out = append(out, fromIntTerm(r, 32, true))
		i += size
	}
	return out
}

func registerUTF8(vm *VM) {
	vm.intrinsics["unicode/utf8.RuneCountInString"] = func(vm *VM, _ *frame, a []Value) Value {
		if s, ok := a[0].(string); ok {
			return int64(utf8.RuneCountInString(s))
		}
		return int64(vm.runeCount(strBytes(a[0])))
	}
	vm.intrinsics["unicode/utf8.RuneCount"] = func(vm *VM, _ *frame, a []Value) Value {
		return int64(vm.runeCount([]Value(a[0].(Slice))))
	}
	vm.intrinsics["unicode/utf8.ValidString"] = func(vm *VM, _ *frame, a []Value) Value {
		s, ok := a[0].(string)
		if !ok {
			vmErr("utf8.ValidString on symbolic string")
		}
		return utf8.ValidString(s)
	}
}

package vm

import (
	"unicode/utf8"

	"github.com/formancehq/numscript/zzverif/smt"
)

// inRange decides lo <= b <= hi for a possibly symbolic byte.
func (vm *VM) inRange(b Value, lo, hi int64) bool {
	switch x := b.(type) {
	case int64:
		return x >= lo && x <= hi
	case *smt.Term:
		return vm.Decide(smt.And(smt.Le(smt.Int64(lo), x), smt.Le(x, smt.Int64(hi))))
	}
	vmErr("inRange: %T", b)
	return false
}

// runeCount is an exact model of utf8.RuneCountInString over bytes that may be
// symbolic: the decoder's case analysis (first byte class, accept ranges of the
// second byte, continuation bytes) becomes solver decisions. Invalid or short
// sequences count one rune per byte, as the standard library does.
func (vm *VM) runeCount(bs []Value) int {
	n := 0
	i := 0
	for i < len(bs) {
		n++
		b := bs[i]
		if vm.inRange(b, 0x00, 0x7F) {
			i++
			continue
		}
		// (size, second-byte accept range)
		size := 0
		lo2, hi2 := int64(0x80), int64(0xBF)
		switch {
		case vm.inRange(b, 0xC2, 0xDF):
			size = 2
		case vm.inRange(b, 0xE0, 0xE0):
			size, lo2 = 3, 0xA0
		case vm.inRange(b, 0xE1, 0xEC):
			size = 3
		case vm.inRange(b, 0xED, 0xED):
			size, hi2 = 3, 0x9F
		case vm.inRange(b, 0xEE, 0xEF):
			size = 3
		case vm.inRange(b, 0xF0, 0xF0):
			size, lo2 = 4, 0x90
		case vm.inRange(b, 0xF1, 0xF3):
			size = 4
		case vm.inRange(b, 0xF4, 0xF4):
			size, hi2 = 4, 0x8F
		default:
			// invalid first byte
			i++
			continue
		}
		if i+size > len(bs) {
			i++
			continue
		}
		if !vm.inRange(bs[i+1], lo2, hi2) {
			i++
			continue
		}
		ok := true
		for k := 2; k < size; k++ {
			if !vm.inRange(bs[i+k], 0x80, 0xBF) {
				ok = false
				break
			}
		}
		if !ok {
			i++
			continue
		}
		i += size
	}
	return n
}

func registerUTF8(vm *VM) {
	vm.intrinsics["unicode/utf8.RuneCountInString"] = func(vm *VM, _ *frame, a []Value) Value {
		if s, ok := a[0].(string); ok {
			return int64(utf8.RuneCountInString(s))
		}
		return int64(vm.runeCount(strBytes(a[0])))
	}
	vm.intrinsics["unicode/utf8.RuneCount"] = func(vm *VM, _ *frame, a []Value) Value {
		return int64(vm.runeCount([]Value(a[0].(Slice))))
	}
	vm.intrinsics["unicode/utf8.ValidString"] = func(vm *VM, _ *frame, a []Value) Value {
		s, ok := a[0].(string)
		if !ok {
			vmErr("utf8.ValidString on symbolic string")
		}
		return utf8.ValidString(s)
	}
}

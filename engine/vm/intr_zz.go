package vm

import (
	"fmt"
	"go/types"
	"math/big"
	"sort"
	"strings"

	"github.com/formancehq/numscript/zzverif/smt"
)

const zzPkg = "github.com/formancehq/numscript/internal/zzvrt."

const maxFindingsPerID = 2

func (vm *VM) modelStrings() map[string]string {
	m, err := vm.Solver.Model()
	out := map[string]string{}
	if err != nil {
		out["__model_error"] = err.Error()
		return out
	}
	for k, v := range m {
		out[k] = v.String()
	}
	return out
}

func (vm *VM) countFindings(kind, id string) int {
	n := 0
	for _, f := range vm.Findings {
		if f.Kind == kind && f.ID == id {
			n++
		}
	}
	return n
}

// regionsOf evaluates the harness-declared regions under a model.
func (vm *VM) regionsOf(model map[string]string) map[string]bool {
	if len(vm.regions) == 0 {
		return nil
	}
	m := map[string]*big.Int{}
	for k, v := range model {
		if b, ok := new(big.Int).SetString(v, 10); ok {
			m[k] = b
		}
	}
	out := map[string]bool{}
	for name, t := range vm.regions {
		_, b := t.Eval(m)
		out[name] = b
	}
	return out
}

// outsideRegions: when the model of a finding lies inside a declared region,
// ask for another model of the same violation outside every such region, so
// that a known finding (identified by its region) cannot hide a different one.
func (vm *VM) outsideRegions(kind, id, msg string, viol *smt.Term, model map[string]string, stack []string) {
	in := vm.regionsOf(model)
	q := viol
	any := false
	for name, inside := range in {
		if inside {
			any = true
			q = smt.And(q, smt.Not(vm.regions[name]))
		}
	}
	if !any {
		return
	}
	vm.Solver.Push()
	vm.Solver.Assert(q)
	if vm.Solver.Check() == smt.Sat {
		m2 := vm.modelStrings()
		vm.Solver.Pop()
		vm.recordFinding(kind, id, msg, m2, stack)
		return
	}
	vm.Solver.Pop()
}

func (vm *VM) recordFinding(kind, id, msg string, model map[string]string, stack []string) {
	regs := vm.regionsOf(model)
	// findings are counted per (id, region membership) so that an in-region model cannot crowd out an out-of-region one
	sig := fmt.Sprint(regs)
	n := 0
	for _, f := range vm.Findings {
		if f.Kind == kind && f.ID == id && fmt.Sprint(f.Regions) == sig {
			n++
		}
	}
	if n >= maxFindingsPerID {
		vm.Extra["suppressed_findings"] = vm.intExtra("suppressed_findings") + 1
		return
	}
	tr := make([]Decision, len(vm.trace))
	copy(tr, vm.trace)
	notes := make([]string, len(vm.notes))
	copy(notes, vm.notes)
	vm.Findings = append(vm.Findings, Finding{Regions: regs, Kind: kind, ID: id, Msg: msg, Model: model, Stack: stack, Notes: notes, Path: tr})
}

func (vm *VM) intExtra(k string) int {
	if v, ok := vm.Extra[k].(int); ok {
		return v
	}
	return 0
}

// checkAssert decides one assertion on the current path.
func (vm *VM) checkAssert(c Value, id string) {
	vm.Asserted[id]++
	if vm.ConcreteValues != nil {
		b, ok := c.(bool)
		if !ok {
			vmErr("concrete mode: assertion %s is not concrete: %s", id, describe(c))
		}
		if !b {
			vm.ConcFailed = append(vm.ConcFailed, id)
		}
		return
	}
	var neg *smt.Term
	switch x := c.(type) {
	case bool:
		if x {
			return
		}
		neg = smt.True
	case *smt.Term:
		neg = smt.Not(x)
	default:
		vmErr("Assert on %T", c)
	}
	vm.Solver.Push()
	vm.Solver.Assert(neg)
	r := vm.Solver.Check()
	switch r {
	case smt.Sat:
		model := vm.modelStrings()
		vm.Solver.Pop()
		vm.recordFinding("assert", id, "", model, append([]string{}, vm.stack...))
		vm.outsideRegions("assert", id, "", neg, model, append([]string{}, vm.stack...))
		// later assertions are evaluated independently: nothing is assumed here
	case smt.Unknown:
		vm.Solver.Pop()
		vm.unknowns++
		vm.Extra["assert_unknown:"+id] = vm.intExtra("assert_unknown:"+id) + 1
	default:
		vm.Solver.Pop()
		vm.Extra["discharged"] = vm.intExtra("discharged") + 1
		// the assertion is implied by the path condition: nothing to add
	}
}

func registerZZ(vm *VM) {
	I := vm.intrinsics
	z := func(name string, f Intrinsic) { I[zzPkg+name] = f }
	str := func(v Value) string {
		s, ok := v.(string)
		if !ok {
			vmErr("zzvrt: name/id must be a concrete string, got %s", describe(v))
		}
		return s
	}
	z("Symbolic", func(vm *VM, _ *frame, a []Value) Value { return true })
	z("BigInt", func(vm *VM, _ *frame, a []Value) Value {
		return vm.newBig(vm.SymInt(str(a[0])))
	})
	z("BigIntOnce", func(vm *VM, _ *frame, a []Value) Value {
		name := str(a[0])
		if vm.onceSyms == nil {
			vm.onceSyms = map[string]*Value{}
		}
		if p, ok := vm.onceSyms[name]; ok {
			return p
		}
		p := vm.newBig(vm.SymInt(name))
		vm.onceSyms[name] = p
		return p
	})
	z("HasPrefix", func(vm *VM, _ *frame, a []Value) Value {
		s, p := a[0], a[1]
		if ss, ok := s.(string); ok {
			if ps, ok := p.(string); ok {
				return strings.HasPrefix(ss, ps)
			}
		}
		if _, isO := s.(*Opaque); isO {
			vmErr("HasPrefix on an opaque string")
		}
		if _, isO := p.(*Opaque); isO {
			vmErr("HasPrefix on an opaque string")
		}
		sa, pa := atomsOf(s), atomsOf(p)
		// structural prefix: identical leading atoms, the last prefix atom may be a prefix of a concrete atom
		for i, x := range pa {
			if i >= len(sa) {
				return false
			}
			y := sa[i]
			last := i == len(pa)-1
			switch x.Kind {
			case aConc:
				if y.Kind != aConc {
					vmErr("HasPrefix: cannot align %s with %s", describe(p), describe(s))
				}
				if last {
					if !strings.HasPrefix(y.S, x.S) {
						if strings.HasPrefix(x.S, y.S) && len(x.S) > len(y.S) {
							vmErr("HasPrefix: cannot align %s with %s", describe(p), describe(s))
						}
						return false
					}
				} else if x.S != y.S {
					return false
				}
			default:
				if y.Kind != x.Kind || !smt.Equal(x.T, y.T) {
					vmErr("HasPrefix: cannot align %s with %s", describe(p), describe(s))
				}
				if last && x.Kind == aDec && i+1 < len(sa) && !sepAfter(sa[i+1:]) {
					vmErr("HasPrefix: decimal atom followed by digits")
				}
			}
		}
		return true
	})
	z("Int", func(vm *VM, _ *frame, a []Value) Value {
		t := vm.SymInt(str(a[0]))
		lo, hi := vm.concInt(a[1], "lo"), vm.concInt(a[2], "hi")
		vm.assume(smt.And(smt.Le(smt.Int64(int64(lo)), t), smt.Le(t, smt.Int64(int64(hi)))))
		return t
	})
	z("Bool", func(vm *VM, _ *frame, a []Value) Value { return vm.SymBool(str(a[0])) })
	z("Byte", func(vm *VM, _ *frame, a []Value) Value {
		t := vm.SymInt(str(a[0]))
		vm.assume(smt.And(smt.Le(smt.Int64(0), t), smt.Le(t, smt.Int64(255))))
		return t
	})
	z("Choice", func(vm *VM, _ *frame, a []Value) Value {
		n := vm.concInt(a[1], "n")
		if n <= 0 {
			vmErr("Choice with n <= 0")
		}
		t := vm.SymInt(str(a[0]))
		vm.assume(smt.And(smt.Le(smt.Int64(0), t), smt.Lt(t, smt.Int64(int64(n)))))
		return vm.ConcretizeInt(t, 0, int64(n-1))
	})
	z("Assume", func(vm *VM, _ *frame, a []Value) Value {
		switch c := a[0].(type) {
		case bool:
			if !c {
				panic(pathAbort{"Assume(false)"})
			}
		case *smt.Term:
			// make sure the path stays feasible
			if vm.Solver.CheckWith(c, false) == smt.Unsat {
				panic(pathAbort{"Assume infeasible"})
			}
			vm.assume(c)
		}
		return nil
	})
	z("Assert", func(vm *VM, _ *frame, a []Value) Value {
		vm.checkAssert(a[0], str(a[1]))
		return nil
	})
	z("Reach", func(vm *VM, _ *frame, a []Value) Value {
		vm.Reached[str(a[0])]++
		vm.ConcReached = append(vm.ConcReached, str(a[0]))
		return nil
	})
	z("Note", func(vm *VM, _ *frame, a []Value) Value {
		vm.notes = append(vm.notes, describeStr(a[0]))
		vm.ConcNotes = append(vm.ConcNotes, describeStr(a[0]))
		return nil
	})
	z("NoteBig", func(vm *VM, _ *frame, a []Value) Value {
		var v string
		if p, _ := a[1].(*Value); p == nil {
			v = "<nil>"
		} else {
			t := vm.bigGet(a[1], "NoteBig")
			if t.Op == smt.OpIntConst {
				v = t.K.String()
			} else {
				v = t.String()
			}
		}
		vm.notes = append(vm.notes, describeStr(a[0])+"="+v)
		vm.ConcNotes = append(vm.ConcNotes, describeStr(a[0])+"="+v)
		return nil
	})
	z("Dec", func(vm *VM, _ *frame, a []Value) Value {
		return mkStr([]Atom{{Kind: aDec, T: vm.bigGet(a[0], "Dec")}})
	})
	z("Region", func(vm *VM, _ *frame, a []Value) Value {
		if vm.regions == nil {
			vm.regions = map[string]*smt.Term{}
		}
		vm.regions[str(a[0])] = toTerm(a[1])
		return nil
	})
	z("Stubbed", func(vm *VM, _ *frame, a []Value) Value {
		// every recorded call of the named stubbed function, as []interface{} of its arguments
		name := str(a[0])
		var out Slice
		for k, calls := range vm.stubLog {
			if strings.HasSuffix(k, name) {
				for _, c := range calls {
					out = append(out, Iface{T: types.NewSlice(types.NewInterfaceType(nil, nil).Complete()), V: c})
				}
			}
		}
		return out
	})
	z("Freeze", func(vm *VM, _ *frame, a []Value) Value {
		vm.Freeze([]Value(a[0].(Slice)))
		return nil
	})
	z("FrozenWrites", func(vm *VM, _ *frame, a []Value) Value {
		w := vm.FrozenWrites()
		for _, x := range w {
			vm.notes = append(vm.notes, "frozen-write: "+x)
		}
		return int64(len(w))
	})
	z("MapOrder", func(vm *VM, _ *frame, a []Value) Value {
		if vm.ConcreteValues == nil {
			vm.mapOrder = a[0].(bool)
		}
		return nil
	})
	z("Concurrently", func(vm *VM, _ *frame, a []Value) Value {
		n := vm.concInt(a[0], "Concurrently n")
		for i := 0; i < n; i++ {
			vm.Call(a[1], []Value{int64(i)})
		}
		return nil
	})
	b2 := func(name string, f func(a, b *smt.Term) *smt.Term) {
		z(name, func(vm *VM, _ *frame, a []Value) Value {
			return fromBoolTerm(f(toTerm(a[0]), toTerm(a[1])))
		})
	}
	b2("And", smt.And)
	b2("Or", smt.Or)
	b2("Implies", smt.Implies)
	b2("Iff", smt.Eq)
	z("Not", func(vm *VM, _ *frame, a []Value) Value { return fromBoolTerm(smt.Not(toTerm(a[0]))) })
	c2 := func(name string, f func(a, b *smt.Term) *smt.Term) {
		z(name, func(vm *VM, _ *frame, a []Value) Value {
			return fromBoolTerm(f(vm.bigGet(a[0], name), vm.bigGet(a[1], name)))
		})
	}
	c2("Eq", smt.Eq)
	c2("Le", smt.Le)
	c2("Lt", smt.Lt)
	z("Ite", func(vm *VM, _ *frame, a []Value) Value {
		return vm.newBig(smt.Ite(toTerm(a[0]), vm.bigGet(a[1], "Ite"), vm.bigGet(a[2], "Ite")))
	})
	z("IteInt", func(vm *VM, _ *frame, a []Value) Value {
		return fromIntTerm(smt.Ite(toTerm(a[0]), toTerm(a[1]), toTerm(a[2])), 64, true)
	})
	z("Min", func(vm *VM, _ *frame, a []Value) Value {
		return vm.newBig(smt.Min(vm.bigGet(a[0], "Min"), vm.bigGet(a[1], "Min")))
	})
	z("Max", func(vm *VM, _ *frame, a []Value) Value {
		return vm.newBig(smt.Max(vm.bigGet(a[0], "Max"), vm.bigGet(a[1], "Max")))
	})
	z("Clamp0", func(vm *VM, _ *frame, a []Value) Value {
		return vm.newBig(smt.Max(vm.bigGet(a[0], "Clamp0"), smt.Int64(0)))
	})
	z("StrEq", func(vm *VM, _ *frame, a []Value) Value {
		c, ok := strEq(a[0], a[1])
		if !ok {
			vmErr("StrEq: cannot align %s and %s", describe(a[0]), describe(a[1]))
		}
		return fromBoolTerm(c)
	})
	z("FloorDiv", func(vm *VM, _ *frame, a []Value) Value {
		d := vm.concInt(a[1], "FloorDiv divisor")
		if d <= 0 {
			vmErr("FloorDiv: divisor must be positive")
		}
		return vm.newBig(smt.Div(vm.bigGet(a[0], "FloorDiv"), smt.Int64(int64(d))))
	})
	z("MulK", func(vm *VM, _ *frame, a []Value) Value {
		k := vm.concInt(a[1], "MulK factor")
		return vm.newBig(smt.Mul(vm.bigGet(a[0], "MulK"), smt.Int64(int64(k))))
	})
}

func describeStr(v Value) string {
	if s, ok := v.(string); ok {
		return s
	}
	return describe(v)
}

// SortedKeys is a helper for deterministic reporting.
func SortedKeys(m map[string]int) []string {
	ks := make([]string, 0, len(m))
	for k := range m {
		ks = append(ks, k)
	}
	sort.Strings(ks)
	return ks
}

var _ = big.NewInt
var _ = fmt.Sprint

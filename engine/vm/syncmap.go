package vm

import (
	"go/token"
	"go/types"
)

// sync.Map modelled as an ordinary VM map attached to the receiver cell (the real
// implementation is lock-free code over atomics and unsafe pointers, which the
// executor does not interpret). Keys must be concrete comparable values.

func (vm *VM) syncMapOf(recv Value, create bool) *Map {
	p, ok := recv.(*Value)
	if !ok || p == nil {
		vm.goPanic("runtime error: invalid memory address or nil pointer dereference")
	}
	if vm.syncMaps == nil {
		vm.syncMaps = map[*Value]*Map{}
	}
	if m, ok := vm.syncMaps[p]; ok {
		return m
	}
	if !create {
		return nil
	}
	m := vm.newMap()
	vm.syncMaps[p] = m
	vm.undo = append(vm.undo, undoEntry{f: func() { delete(vm.syncMaps, p) }})
	return m
}

func registerSyncMap(vm *VM) {
	I := vm.intrinsics
	I["(*sync.Map).Load"] = func(vm *VM, _ *frame, a []Value) Value {
		m := vm.syncMapOf(a[0], false)
		if v, ok := vm.mapLookup(m, a[1]); ok {
			return Tuple{v, true}
		}
		return Tuple{Iface{}, false}
	}
	I["(*sync.Map).Store"] = func(vm *VM, _ *frame, a []Value) Value {
		vm.mapSet(vm.syncMapOf(a[0], true), a[1], a[2])
		return nil
	}
	I["(*sync.Map).LoadOrStore"] = func(vm *VM, _ *frame, a []Value) Value {
		m := vm.syncMapOf(a[0], true)
		if v, ok := vm.mapLookup(m, a[1]); ok {
			return Tuple{v, true}
		}
		vm.mapSet(m, a[1], a[2])
		return Tuple{a[2], false}
	}
	I["(*sync.Map).LoadAndDelete"] = func(vm *VM, _ *frame, a []Value) Value {
		m := vm.syncMapOf(a[0], false)
		if v, ok := vm.mapLookup(m, a[1]); ok {
			vm.mapDelete(m, a[1])
			return Tuple{v, true}
		}
		return Tuple{Iface{}, false}
	}
	I["(*sync.Map).Delete"] = func(vm *VM, _ *frame, a []Value) Value {
		vm.mapDelete(vm.syncMapOf(a[0], false), a[1])
		return nil
	}
	I["(*sync.Map).Swap"] = func(vm *VM, _ *frame, a []Value) Value {
		m := vm.syncMapOf(a[0], true)
		old, ok := vm.mapLookup(m, a[1])
		vm.mapSet(m, a[1], a[2])
		if ok {
			return Tuple{old, true}
		}
		return Tuple{Iface{}, false}
	}
}

// Locks are no-ops: the executor runs the goroutines of zzvrt.Concurrently one
// after the other (interleavings are the native -race replay's business).
// sync.Once runs its function the first time only; sync/atomic integer
// operations act on the cell directly.
func registerSyncPrims(vm *VM) {
	I := vm.intrinsics
	nop := func(vm *VM, _ *frame, a []Value) Value { return nil }
	for _, n := range []string{"(*sync.Mutex).Lock", "(*sync.Mutex).Unlock", "(*sync.RWMutex).Lock", "(*sync.RWMutex).Unlock", "(*sync.RWMutex).RLock", "(*sync.RWMutex).RUnlock"} {
		I[n] = nop
	}
	I["(*sync.Mutex).TryLock"] = func(vm *VM, _ *frame, a []Value) Value { return true }
	I["(*sync.Once).Do"] = func(vm *VM, _ *frame, a []Value) Value {
		p, ok := a[0].(*Value)
		if !ok || p == nil {
			vm.goPanic("runtime error: invalid memory address or nil pointer dereference")
		}
		if vm.onceDone == nil {
			vm.onceDone = map[*Value]bool{}
		}
		if vm.onceDone[p] {
			return nil
		}
		vm.onceDone[p] = true
		vm.undo = append(vm.undo, undoEntry{f: func() { delete(vm.onceDone, p) }})
		vm.Call(a[1], nil)
		return nil
	}
}

func registerAtomic(vm *VM) {
	I := vm.intrinsics
	kinds := map[string]types.BasicKind{"Int32": types.Int32, "Int64": types.Int64, "Uint32": types.Uint32, "Uint64": types.Uint64, "Uintptr": types.Uintptr}
	for name, k := range kinds {
		t := types.Typ[k]
		I["sync/atomic.Load"+name] = func(vm *VM, _ *frame, a []Value) Value { return vm.load(a[0].(*Value)) }
		I["sync/atomic.Store"+name] = func(vm *VM, _ *frame, a []Value) Value { vm.store(a[0].(*Value), a[1]); return nil }
		I["sync/atomic.Add"+name] = func(vm *VM, _ *frame, a []Value) Value {
			p := a[0].(*Value)
			nv := vm.binop(token.ADD, t, vm.load(p), a[1], nil)
			vm.store(p, nv)
			return nv
		}
		I["sync/atomic.Swap"+name] = func(vm *VM, _ *frame, a []Value) Value {
			p := a[0].(*Value)
			old := vm.load(p)
			vm.store(p, a[1])
			return old
		}
		I["sync/atomic.CompareAndSwap"+name] = func(vm *VM, _ *frame, a []Value) Value {
			p := a[0].(*Value)
			if vm.Truth(vm.binop(token.EQL, t, vm.load(p), a[1], nil)) {
				vm.store(p, a[2])
				return true
			}
			return false
		}
	}
}

// sync.Pool: Get returns the most recently Put item, else New() (else nil). Items are
// kept per pool cell; the real pool may drop items at any time, which the "empty
// pool" behaviour of a first call already covers.
func registerSyncPool(vm *VM) {
	I := vm.intrinsics
	I["(*sync.Pool).Put"] = func(vm *VM, _ *frame, a []Value) Value {
		p := a[0].(*Value)
		if vm.pools == nil {
			vm.pools = map[*Value][]Value{}
		}
		old := vm.pools[p]
		vm.undo = append(vm.undo, undoEntry{f: func() { vm.pools[p] = old }})
		vm.pools[p] = append(append([]Value{}, old...), a[1])
		return nil
	}
	I["(*sync.Pool).Get"] = func(vm *VM, _ *frame, a []Value) Value {
		p := a[0].(*Value)
		if items := vm.pools[p]; len(items) > 0 {
			old := items
			vm.undo = append(vm.undo, undoEntry{f: func() { vm.pools[p] = old }})
			vm.pools[p] = items[:len(items)-1]
			return items[len(items)-1]
		}
		// field New func() any is the last field of sync.Pool
		st, ok := (*p).(Struct)
		if ok && len(st) > 0 {
			if fn := st[len(st)-1]; !isNilValue(fn) {
				return vm.Call(fn, nil)
			}
		}
		return Iface{}
	}
}

func registerMapsPkg(vm *VM) {
	I := vm.intrinsics
	clone := func(vm *VM, _ *frame, a []Value) Value {
		m, _ := a[0].(*Map)
		if m == nil {
			return (*Map)(nil)
		}
		c := vm.newMap()
		c.entries = append([]mapEntry{}, m.entries...)
		return c
	}
	I["maps.Clone"] = clone
	// the runtime-linked helper behind maps.Clone: func clone(m any) any
	I["maps.clone"] = func(vm *VM, fr *frame, a []Value) Value {
		if ifc, ok := a[0].(Iface); ok {
			return Iface{T: ifc.T, V: clone(vm, fr, []Value{ifc.V})}
		}
		return clone(vm, fr, a)
	}
}

// strings.Builder: the accumulated text is kept as a string value in the builder's buf
// slot (the real implementation appends to a byte slice and converts it with unsafe).
func registerStringsBuilder(vm *VM) {
	I := vm.intrinsics
	cur := func(vm *VM, recv Value) (*Value, Struct, Value) {
		p, ok := recv.(*Value)
		if !ok || p == nil {
			vm.goPanic("runtime error: invalid memory address or nil pointer dereference")
		}
		st, ok := (*p).(Struct)
		if !ok || len(st) < 2 {
			vmErr("strings.Builder: unexpected representation")
		}
		var text Value = ""
		switch t := st[1].(type) {
		case string, *SymStr:
			text = t
		}
		return p, st, text
	}
	set := func(vm *VM, st Struct, v Value) { vm.store(&st[1], v) }
	I["(*strings.Builder).WriteString"] = func(vm *VM, _ *frame, a []Value) Value {
		_, st, text := cur(vm, a[0])
		set(vm, st, concatStr(text, a[1]))
		return Tuple{int64(strLenOrZero(a[1])), Iface{}}
	}
	I["(*strings.Builder).WriteByte"] = func(vm *VM, _ *frame, a []Value) Value {
		_, st, text := cur(vm, a[0])
		set(vm, st, concatStr(text, strFromBytes([]Value{a[1]})))
		return Iface{}
	}
	I["(*strings.Builder).WriteRune"] = func(vm *VM, _ *frame, a []Value) Value {
		_, st, text := cur(vm, a[0])
		r, ok := a[1].(int64)
		if !ok {
			vmErr("strings.Builder.WriteRune with a symbolic rune")
		}
		s := string(rune(r))
		set(vm, st, concatStr(text, s))
		return Tuple{int64(len(s)), Iface{}}
	}
	I["(*strings.Builder).Write"] = func(vm *VM, _ *frame, a []Value) Value {
		_, st, text := cur(vm, a[0])
		bs, ok := a[1].(Slice)
		if !ok {
			vmErr("strings.Builder.Write of %T", a[1])
		}
		set(vm, st, concatStr(text, strFromBytes([]Value(bs))))
		return Tuple{int64(len(bs)), Iface{}}
	}
	I["(*strings.Builder).String"] = func(vm *VM, _ *frame, a []Value) Value {
		_, _, text := cur(vm, a[0])
		return text
	}
	I["(*strings.Builder).Len"] = func(vm *VM, _ *frame, a []Value) Value {
		_, _, text := cur(vm, a[0])
		return int64(strLen(text))
	}
	I["(*strings.Builder).Grow"] = func(vm *VM, _ *frame, a []Value) Value { return nil }
	I["(*strings.Builder).Reset"] = func(vm *VM, _ *frame, a []Value) Value {
		_, st, _ := cur(vm, a[0])
		set(vm, st, "")
		return nil
	}
}

func strLenOrZero(v Value) int {
	defer func() { recover() }()
	return strLen(v)
}

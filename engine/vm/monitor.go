package vm

import (
	"fmt"
	"strings"
)

// Write-confinement monitor: Freeze marks every object reachable from the given
// roots and from package-level variables; FrozenWrites reports the stores and
// map updates that hit a marked object since then.

func (vm *VM) freezeWalk(v Value, depth int) {
	if depth > 200 {
		return
	}
	switch x := v.(type) {
	case *Value:
		if x == nil || vm.frozen[x] {
			return
		}
		vm.frozen[x] = true
		vm.freezeWalk(*x, depth+1)
	case Struct:
		for i := range x {
			vm.frozen[&x[i]] = true
			vm.freezeWalk(x[i], depth+1)
		}
	case Array:
		for i := range x {
			vm.frozen[&x[i]] = true
			vm.freezeWalk(x[i], depth+1)
		}
	case Slice:
		full := x[:cap(x)]
		for i := range full {
			if vm.frozen[&full[i]] {
				continue
			}
			vm.frozen[&full[i]] = true
			vm.freezeWalk(full[i], depth+1)
		}
	case Tuple:
		for i := range x {
			vm.freezeWalk(x[i], depth+1)
		}
	case *Map:
		if x == nil || vm.frozenMaps[x] {
			return
		}
		vm.frozenMaps[x] = true
		for _, e := range x.entries {
			vm.freezeWalk(e.K, depth+1)
			vm.freezeWalk(e.V, depth+1)
		}
	case Iface:
		vm.freezeWalk(x.V, depth+1)
	case *Closure:
		if x != nil {
			for _, e := range x.Env {
				vm.freezeWalk(e, depth+1)
			}
		}
	}
}

func (vm *VM) Freeze(roots []Value) {
	vm.frozen = map[*Value]bool{}
	vm.frozenMaps = map[*Map]bool{}
	for _, r := range roots {
		vm.freezeWalk(r, 0)
	}
	for g, cell := range vm.globals {
		if g.Pkg != nil && strings.HasPrefix(g.Pkg.Pkg.Path(), RepoModule) && !strings.Contains(g.Pkg.Pkg.Path(), "zzvrt") {
			vm.freezeWalk(cell, 0)
		}
	}
	vm.frozenMark = len(vm.undo)
	vm.frozenOn = true
}

// FrozenWrites lists writes to frozen objects since Freeze.
func (vm *VM) FrozenWrites() []string {
	var out []string
	if !vm.frozenOn {
		return nil
	}
	for _, e := range vm.undo[vm.frozenMark:] {
		switch {
		case e.p != nil:
			if g, isG := vm.globalCells[e.p]; isG {
				if g.Pkg != nil && strings.HasPrefix(g.Pkg.Pkg.Path(), RepoModule) && !strings.Contains(g.Pkg.Pkg.Path(), "zzvrt") {
					out = append(out, "write to package-level variable "+g.String())
				}
				continue
			}
			if vm.frozen[e.p] {
				out = append(out, fmt.Sprintf("write to a pre-existing object (old value %s)", describe(e.old)))
			}
		case e.m != nil:
			if vm.frozenMaps[e.m] {
				out = append(out, "update of a pre-existing map")
			}
		}
	}
	return out
}

package vm

import (
	"encoding/json"
	"fmt"
	"math/big"
	"regexp"
	"strings"
	"unicode/utf8"

	"github.com/formancehq/numscript/zzverif/smt"
)

// Model validation: the string-level models (regexp matcher, big.Int / big.Rat
// SetString, utf8 rune count, strings.Split) are run on SYMBOLIC bytes that are
// pinned to a concrete text only through solver assumptions, so every decision
// goes through the same code as in a real run; the outcome is compared with the
// native function on an exhaustive small-scope battery.

func (vm *VM) pinnedString(s string) (Value, map[string]*big.Int) {
	atoms := make([]Atom, len(s))
	m := map[string]*big.Int{}
	for i := 0; i < len(s); i++ {
		name := fmt.Sprintf("st%d", i)
		v := smt.Var(name, smt.SInt)
		vm.declared[name] = symDecl{"byte"}
		vm.assume(smt.Eq(v, smt.Int64(int64(s[i]))))
		atoms[i] = Atom{Kind: aByte, T: v}
		m[name] = big.NewInt(int64(s[i]))
	}
	if len(atoms) == 0 {
		return "", m
	}
	return &SymStr{Atoms: atoms}, m
}

func concretize(v Value, m map[string]*big.Int) string {
	switch x := v.(type) {
	case string:
		return x
	case *SymStr:
		var sb strings.Builder
		for _, a := range x.Atoms {
			switch a.Kind {
			case aConc:
				sb.WriteString(a.S)
			case aByte:
				k, _ := a.T.Eval(m)
				sb.WriteByte(byte(k.Int64()))
			case aDec:
				k, _ := a.T.Eval(m)
				sb.WriteString(k.String())
			}
		}
		return sb.String()
	}
	return fmt.Sprintf("<%T>", v)
}

func evalInt(t *smt.Term, m map[string]*big.Int) *big.Int {
	k, _ := t.Eval(m)
	return k
}

// SelfTest runs the battery; returns the number of comparisons and the mismatches.
func (vm *VM) SelfTest(maxLen int) (int, []string) {
	alphabet := []byte("0179x_/.%- +")
	var texts []string
	var gen func(cur []byte)
	gen = func(cur []byte) {
		texts = append(texts, string(cur))
		if len(cur) == maxLen {
			return
		}
		for _, c := range alphabet {
			gen(append(append([]byte{}, cur...), c))
		}
	}
	gen(nil)
	extra := []string{"010%", "0.10%", "08%", "12.5%", "100%", "1/010", "1 / 3", "1 /3", "10/100", "0x1/2", "0b1", "1e3", "1_0", "01_0", "-5", "+5", "USD 10", "00", "0/0", "é", "a\xc3", "\xe2\x82\xac1", "\xf0\x9f\x98\x80", "\xed\xa0\x80", "\xc0\x80", "1.5", ".5", "5.", "0o7", "0X1f", "1__0", "_1", "1_"}
	texts = append(texts, extra...)
	pats := []*regexp.Regexp{regexp.MustCompile(`^([0-9]+)(?:[.]([0-9]+))?[%]$`), regexp.MustCompile(`^([0-9]+)\s?[/]\s?([0-9]+)$`)}
	n := 0
	var bad []string
	fail := func(what, s, got, want string) {
		if len(bad) < 20 {
			bad = append(bad, fmt.Sprintf("%s(%q): model=%s native=%s", what, s, got, want))
		}
	}
	run := func(s string, f func(sv Value, m map[string]*big.Int)) {
		vm.resetPath(nil)
		vm.Solver.PopTo(0)
		vm.Solver.Push()
		defer func() {
			if r := recover(); r != nil {
				if e, ok := r.(VMError); ok {
					// a refusal is allowed (it makes a real run inconclusive), a wrong answer is not
					_ = e
				} else if _, ok := r.(pathAbort); ok {
				} else {
					panic(r)
				}
			}
			vm.Solver.PopTo(0)
			vm.undoTo(0)
		}()
		sv, m := vm.pinnedString(s)
		f(sv, m)
	}
	for _, s := range texts {
		s := s
		// regexp
		for _, re := range pats {
			re := re
			run(s, func(sv Value, m map[string]*big.Int) {
				n++
				var got []string
				if str, ok := sv.(string); ok {
					got = re.FindStringSubmatch(str)
				} else {
					res := vm.symRegexSubmatch(re, sv).(Slice)
					for _, x := range res {
						got = append(got, concretize(x, m))
					}
				}
				want := re.FindStringSubmatch(s)
				if strings.Join(got, "\x00") != strings.Join(want, "\x00") || (got == nil) != (want == nil) {
					fail("regexp "+re.String(), s, fmt.Sprint(got), fmt.Sprint(want))
				}
			})
		}
		// big.Int.SetString base 10 and base 0
		for _, base := range []int{10, 0} {
			base := base
			run(s, func(sv Value, m map[string]*big.Int) {
				n++
				t, ok := vm.parseBigString(sv, base)
				w, wok := new(big.Int).SetString(s, base)
				if ok != wok || (ok && evalInt(t, m).Cmp(w) != 0) {
					g := "fail"
					if ok {
						g = evalInt(t, m).String()
					}
					fail(fmt.Sprintf("Int.SetString base %d", base), s, g, fmt.Sprint(w, wok))
				}
			})
		}
		// big.Rat.SetString
		run(s, func(sv Value, m map[string]*big.Int) {
			n++
			r, ok := vm.parseRatString(sv)
			w, wok := new(big.Rat).SetString(s)
			if ok != wok {
				fail("Rat.SetString", s, fmt.Sprint(ok), fmt.Sprint(wok))
				return
			}
			if ok {
				g := new(big.Rat).SetFrac(evalInt(r.N, m), evalInt(r.D, m))
				if g.Cmp(w) != 0 {
					fail("Rat.SetString", s, g.String(), w.String())
				}
			}
		})
		// utf8.RuneCountInString
		run(s, func(sv Value, m map[string]*big.Int) {
			n++
			var got int
			if str, ok := sv.(string); ok {
				got = utf8.RuneCountInString(str)
			} else {
				got = vm.runeCount(strBytes(sv))
			}
			if got != utf8.RuneCountInString(s) {
				fail("RuneCountInString", s, fmt.Sprint(got), fmt.Sprint(utf8.RuneCountInString(s)))
			}
		})
		// strings.Split on " " and TrimSpace / TrimSuffix
		run(s, func(sv Value, m map[string]*big.Int) {
			n++
			res := vm.intrinsics["strings.Split"](vm, nil, []Value{sv, " "}).(Slice)
			var got []string
			for _, x := range res {
				got = append(got, concretize(x, m))
			}
			if strings.Join(got, "\x00") != strings.Join(strings.Split(s, " "), "\x00") {
				fail("strings.Split", s, fmt.Sprint(got), fmt.Sprint(strings.Split(s, " ")))
			}
		})
		run(s, func(sv Value, m map[string]*big.Int) {
			n++
			got := concretize(vm.intrinsics["strings.TrimSpace"](vm, nil, []Value{sv}), m)
			if got != strings.TrimSpace(s) {
				fail("strings.TrimSpace", s, got, strings.TrimSpace(s))
			}
		})
		run(s, func(sv Value, m map[string]*big.Int) {
			n++
			got := concretize(vm.intrinsics["strings.TrimSuffix"](vm, nil, []Value{sv, "%"}), m)
			if got != strings.TrimSuffix(s, "%") {
				fail("strings.TrimSuffix", s, got, strings.TrimSuffix(s, "%"))
			}
		})
		run(s, func(sv Value, m map[string]*big.Int) {
			n++
			got := concretize(vm.intrinsics["strings.Replace"](vm, nil, []Value{sv, ".", "", int64(-1)}), m)
			if got != strings.Replace(s, ".", "", -1) {
				fail("strings.Replace", s, got, strings.Replace(s, ".", "", -1))
			}
		})
		// Index / IndexByte / Contains / HasPrefix / HasSuffix with a concrete pattern
		for _, pat := range []string{".", "%", "/", "1.", " /", "0"} {
			pat := pat
			run(s, func(sv Value, m map[string]*big.Int) {
				n++
				if got := vm.intrinsics["strings.Index"](vm, nil, []Value{sv, pat}); got != int64(strings.Index(s, pat)) {
					fail("strings.Index "+pat, s, fmt.Sprint(got), fmt.Sprint(strings.Index(s, pat)))
				}
			})
			run(s, func(sv Value, m map[string]*big.Int) {
				n++
				if got := vm.intrinsics["strings.Contains"](vm, nil, []Value{sv, pat}); got != strings.Contains(s, pat) {
					fail("strings.Contains "+pat, s, fmt.Sprint(got), fmt.Sprint(strings.Contains(s, pat)))
				}
				if got := vm.intrinsics["strings.HasPrefix"](vm, nil, []Value{sv, pat}); got != strings.HasPrefix(s, pat) {
					fail("strings.HasPrefix "+pat, s, fmt.Sprint(got), fmt.Sprint(strings.HasPrefix(s, pat)))
				}
				if got := vm.intrinsics["strings.HasSuffix"](vm, nil, []Value{sv, pat}); got != strings.HasSuffix(s, pat) {
					fail("strings.HasSuffix "+pat, s, fmt.Sprint(got), fmt.Sprint(strings.HasSuffix(s, pat)))
				}
			})
		}
		run(s, func(sv Value, m map[string]*big.Int) {
			n++
			if got := vm.intrinsics["strings.IndexByte"](vm, nil, []Value{sv, int64('.')}); got != int64(strings.IndexByte(s, '.')) {
				fail("strings.IndexByte", s, fmt.Sprint(got), fmt.Sprint(strings.IndexByte(s, '.')))
			}
		})
	}
	// encoding/json string encoding
	jalpha := []byte{'a', '"', '\\', '<', '&', '\n', 0x01, 0x7f, 0xc3, 0xa9, 0xff, '\b', '\f', 0xe2, 0x80, 0xa8, '>', '\t', 0x1f, ' '}
	var jtexts []string
	for _, x := range jalpha {
		jtexts = append(jtexts, string([]byte{x}))
		for _, y := range jalpha {
			jtexts = append(jtexts, string([]byte{x, y}))
		}
	}
	jtexts = append(jtexts, "", "\xe2\x80\xa8", "\xe2\x80\xa9", "\xe2\x80\xaa", "R&D <fees> \"q3\"", "é\xc3", "\xf0\x9f\x98\x80", "a\x00b")
	for _, s := range jtexts {
		s := s
		run(s, func(sv Value, m map[string]*big.Int) {
			n++
			got := concretize(vm.jsonQuote(sv), m)
			wb, _ := json.Marshal(s)
			if got != string(wb) {
				fail("json.Marshal(string)", s, got, string(wb))
			}
		})
	}
	// string equality over decimal atoms: the condition built by strEq, evaluated under
	// the pinned values, must agree with equality of the rendered strings
	ints := []int64{-12, -1, 0, 1, 5, 10, 123}
	cands := []string{"", "0", "1", "5", "-1", "-12", "10", "123", "012", "+5", "5 ", " 5", "-0", "1/2", "USD 5", "USD 10", "USD -1", "USD  5", "EUR 5", "5/10", "10/5", "1/1", "-1/5", "5/", "/5", "USD", "USD 5 "}
	for _, k := range ints {
		for _, m2 := range ints {
			func() {
				vm.resetPath(nil)
				vm.Solver.PopTo(0)
				vm.Solver.Push()
				defer func() {
					recover()
					vm.Solver.PopTo(0)
					vm.undoTo(0)
				}()
				a, b := smt.Var("sa", smt.SInt), smt.Var("sb", smt.SInt)
				vm.declared["sa"], vm.declared["sb"] = symDecl{"int"}, symDecl{"int"}
				vm.assume(smt.Eq(a, smt.Int64(k)))
				vm.assume(smt.Eq(b, smt.Int64(m2)))
				model := map[string]*big.Int{"sa": big.NewInt(k), "sb": big.NewInt(m2)}
				shapes := []Value{
					mkStr([]Atom{{Kind: aDec, T: a}}),
					mkStr([]Atom{{Kind: aConc, S: "USD "}, {Kind: aDec, T: a}}),
					mkStr([]Atom{{Kind: aDec, T: a}, {Kind: aConc, S: "/"}, {Kind: aDec, T: b}}),
					mkStr([]Atom{{Kind: aConc, S: "\""}, {Kind: aDec, T: a}, {Kind: aConc, S: "\""}}),
				}
				others := append([]Value{}, shapes...)
				others = append(others, mkStr([]Atom{{Kind: aDec, T: b}}), mkStr([]Atom{{Kind: aConc, S: "USD "}, {Kind: aDec, T: b}}), mkStr([]Atom{{Kind: aDec, T: b}, {Kind: aConc, S: "/"}, {Kind: aDec, T: a}}))
				for _, c := range cands {
					others = append(others, c, "\""+c+"\"")
				}
				// search functions and JSON quoting over strings with decimal atoms
				for _, x := range append(append([]Value{}, shapes...), mkStr([]Atom{{Kind: aConc, S: "a b "}, {Kind: aDec, T: a}, {Kind: aConc, S: " c%"}}), mkStr([]Atom{{Kind: aDec, T: a}, {Kind: aConc, S: "% "}, {Kind: aDec, T: b}, {Kind: aConc, S: "\\q\""}})) {
					cx := concretize(x, model)
					for _, pat := range []string{" ", "/", "%", "USD", "\"", "c%", " c"} {
						chk := func(name string, want interface{}) {
							defer func() {
								if r := recover(); r != nil {
									if _, isVMErr := r.(VMError); isVMErr {
										return // a refusal is inconclusive, not a wrong answer
									}
									panic(r)
								}
							}()
							n++
							got := vm.intrinsics[name](vm, nil, []Value{x, pat})
							if fmt.Sprint(got) != fmt.Sprint(want) {
								fail(name+" "+pat, cx, fmt.Sprint(got), fmt.Sprint(want))
							}
						}
						chk("strings.Contains", strings.Contains(cx, pat))
						chk("strings.HasPrefix", strings.HasPrefix(cx, pat))
						chk("strings.HasSuffix", strings.HasSuffix(cx, pat))
						chk("strings.Index", int64(strings.Index(cx, pat)))
					}
					func() {
						defer func() {
							if r := recover(); r != nil {
								if _, isVMErr := r.(VMError); isVMErr {
									return
								}
								panic(r)
							}
						}()
						n++
						got := concretize(vm.jsonQuote(x), model)
						wb, _ := json.Marshal(cx)
						if got != string(wb) {
							fail("json.Marshal(string with decimals)", cx, got, string(wb))
						}
					}()
				}
				for _, x := range shapes {
					for _, y := range others {
						n++
						c, ok := strEq(x, y)
						if !ok {
							continue // a refusal makes a run inconclusive, it is not a wrong answer
						}
						_, got := c.Eval(model)
						want := concretize(x, model) == concretize(y, model)
						if got != want {
							fail("strEq", concretize(x, model)+" vs "+concretize(y, model), fmt.Sprint(got), fmt.Sprint(want))
						}
					}
				}
			}()
		}
	}
	return n, bad
}

package vm

import (
	"math/big"
	"strings"

	"github.com/formancehq/numscript/zzverif/smt"
)

type atomKind int

const (
	aConc atomKind = iota
	aByte          // one symbolic byte, T in [0,255]
	aDec           // decimal rendering of integer term T: -?(0|[1-9][0-9]*)
)

type Atom struct {
	Kind atomKind
	S    string
	T    *smt.Term
}

// SymStr is a string made of concrete runs, symbolic bytes and decimal
// renderings of integer terms.
type SymStr struct{ Atoms []Atom }

func (s *SymStr) describe() string {
	var sb strings.Builder
	sb.WriteString("str<")
	for i, a := range s.Atoms {
		if i > 0 {
			sb.WriteString(" ")
		}
		switch a.Kind {
		case aConc:
			sb.WriteString(strconvQuote(a.S))
		case aByte:
			sb.WriteString("byte(" + a.T.String() + ")")
		case aDec:
			sb.WriteString("dec(" + a.T.String() + ")")
		}
	}
	sb.WriteString(">")
	return sb.String()
}

func strconvQuote(s string) string {
	var sb strings.Builder
	sb.WriteByte('"')
	for i := 0; i < len(s); i++ {
		c := s[i]
		if c >= 0x20 && c < 0x7f && c != '"' && c != '\\' {
			sb.WriteByte(c)
		} else {
			sb.WriteString("\\x")
			sb.WriteByte("0123456789abcdef"[c>>4])
			sb.WriteByte("0123456789abcdef"[c&15])
		}
	}
	sb.WriteByte('"')
	return sb.String()
}

func atomsOf(v Value) []Atom {
	switch x := v.(type) {
	case string:
		if x == "" {
			return nil
		}
		return []Atom{{Kind: aConc, S: x}}
	case *SymStr:
		return x.Atoms
	case *Opaque:
		vmErr("inspection of an opaque string (%s)", x.What)
	}
	vmErr("atomsOf: not a string: %T", v)
	return nil
}

// mkStr normalises atoms: merges concrete runs, lowers constant atoms, and
// returns a Go string when nothing symbolic remains.
func mkStr(atoms []Atom) Value {
	var out []Atom
	for _, a := range atoms {
		switch a.Kind {
		case aByte:
			if a.T.Op == smt.OpIntConst {
				a = Atom{Kind: aConc, S: string([]byte{byte(a.T.K.Int64())})}
			}
		case aDec:
			if a.T.Op == smt.OpIntConst {
				a = Atom{Kind: aConc, S: a.T.K.String()}
			}
		}
		if a.Kind == aConc {
			if a.S == "" {
				continue
			}
			if n := len(out); n > 0 && out[n-1].Kind == aConc {
				out[n-1] = Atom{Kind: aConc, S: out[n-1].S + a.S}
				continue
			}
		}
		out = append(out, a)
	}
	if len(out) == 0 {
		return ""
	}
	if len(out) == 1 && out[0].Kind == aConc {
		return out[0].S
	}
	return &SymStr{Atoms: out}
}

func concatStr(a, b Value) Value {
	if o, ok := a.(*Opaque); ok {
		return o
	}
	if o, ok := b.(*Opaque); ok {
		return o
	}
	as, bs := atomsOf(a), atomsOf(b)
	all := make([]Atom, 0, len(as)+len(bs))
	all = append(all, as...)
	all = append(all, bs...)
	return mkStr(all)
}

func hasDec(atoms []Atom) bool {
	for _, a := range atoms {
		if a.Kind == aDec {
			return true
		}
	}
	return false
}

// strLen returns the byte length; refuses strings with dec atoms.
func strLen(v Value) int {
	if s, ok := v.(string); ok {
		return len(s)
	}
	n := 0
	for _, a := range atomsOf(v) {
		switch a.Kind {
		case aConc:
			n += len(a.S)
		case aByte:
			n++
		case aDec:
			vmErr("len of a string containing a decimal atom of unknown length")
		}
	}
	return n
}

// strBytes expands a dec-free string into per-byte values (int64 or term).
func strBytes(v Value) []Value {
	if s, ok := v.(string); ok {
		out := make([]Value, len(s))
		for i := 0; i < len(s); i++ {
			out[i] = int64(s[i])
		}
		return out
	}
	var out []Value
	for _, a := range atomsOf(v) {
		switch a.Kind {
		case aConc:
			for i := 0; i < len(a.S); i++ {
				out = append(out, int64(a.S[i]))
			}
		case aByte:
			out = append(out, a.T)
		case aDec:
			vmErr("byte access into a string containing a decimal atom")
		}
	}
	return out
}

func strFromBytes(bs []Value) Value {
	atoms := make([]Atom, 0, len(bs))
	for _, b := range bs {
		switch x := b.(type) {
		case int64:
			atoms = append(atoms, Atom{Kind: aConc, S: string([]byte{byte(x)})})
		case *smt.Term:
			atoms = append(atoms, Atom{Kind: aByte, T: x})
		default:
			vmErr("strFromBytes: %T", b)
		}
	}
	return mkStr(atoms)
}

// strSlice is s[lo:hi] on byte positions (dec atoms only allowed outside
// the cut points when they can be kept whole).
func strSlice(v Value, lo, hi int) Value {
	if s, ok := v.(string); ok {
		if lo < 0 || hi > len(s) || lo > hi {
			panic(GoPanic{Msg: "runtime error: slice bounds out of range"})
		}
		return s[lo:hi]
	}
	bs := strBytes(v)
	if lo < 0 || hi > len(bs) || lo > hi {
		panic(GoPanic{Msg: "runtime error: slice bounds out of range"})
	}
	return strFromBytes(bs[lo:hi])
}

func isCanonicalDec(s string) bool {
	if s == "" {
		return false
	}
	i := 0
	if s[0] == '-' {
		i = 1
		if len(s) == 1 {
			return false
		}
	}
	if s[i] == '0' {
		return len(s) == i+1 && i == 0 // "0" only; "-0" is not produced by String()
	}
	for ; i < len(s); i++ {
		if s[i] < '0' || s[i] > '9' {
			return false
		}
	}
	return true
}

// strEq builds the condition under which two strings are equal. ok=false when
// the atom structures cannot be aligned soundly.
func strEq(a, b Value) (*smt.Term, bool) {
	as, aok := a.(string)
	bs, bok := b.(string)
	if aok && bok {
		return smt.Bool(as == bs), true
	}
	return atomsEq(atomsOf(a), atomsOf(b))
}

func atomsEq(x, y []Atom) (*smt.Term, bool) {
	// no dec atoms on either side: bytewise comparison
	if !hasDec(x) && !hasDec(y) {
		bx := strBytes(mkStrRaw(x))
		by := strBytes(mkStrRaw(y))
		if len(bx) != len(by) {
			return smt.False, true
		}
		c := smt.True
		for i := range bx {
			c = smt.And(c, smt.Eq(toTerm(bx[i]), toTerm(by[i])))
		}
		return c, true
	}
	if len(x) == 0 || len(y) == 0 {
		// a dec atom is never empty
		if len(x) == 0 && len(y) == 0 {
			return smt.True, true
		}
		rest := x
		if len(x) == 0 {
			rest = y
		}
		for _, a := range rest {
			if a.Kind != aConc || a.S != "" {
				return smt.False, true
			}
		}
		return smt.True, true
	}
	// strip equal concrete prefixes / suffixes
	if x[0].Kind == aConc && y[0].Kind == aConc {
		n := len(x[0].S)
		if len(y[0].S) < n {
			n = len(y[0].S)
		}
		if x[0].S[:n] != y[0].S[:n] {
			return smt.False, true
		}
		nx := append([]Atom{{Kind: aConc, S: x[0].S[n:]}}, x[1:]...)
		ny := append([]Atom{{Kind: aConc, S: y[0].S[n:]}}, y[1:]...)
		return atomsEq(trimEmpty(nx), trimEmpty(ny))
	}
	lx, ly := x[len(x)-1], y[len(y)-1]
	if lx.Kind == aConc && ly.Kind == aConc {
		n := len(lx.S)
		if len(ly.S) < n {
			n = len(ly.S)
		}
		if lx.S[len(lx.S)-n:] != ly.S[len(ly.S)-n:] {
			return smt.False, true
		}
		nx := append(append([]Atom{}, x[:len(x)-1]...), Atom{Kind: aConc, S: lx.S[:len(lx.S)-n]})
		ny := append(append([]Atom{}, y[:len(y)-1]...), Atom{Kind: aConc, S: ly.S[:len(ly.S)-n]})
		return atomsEq(trimEmpty(nx), trimEmpty(ny))
	}
	// dec vs dec at the head, followed by identical-shape tails that start with a
	// non-digit separator (or nothing): the dec runs must coincide.
	if x[0].Kind == aDec && y[0].Kind == aDec {
		if sepAfter(x[1:]) && sepAfter(y[1:]) {
			rest, ok := atomsEq(x[1:], y[1:])
			if !ok {
				return nil, false
			}
			return smt.And(smt.Eq(x[0].T, y[0].T), rest), true
		}
		return nil, false
	}
	// dec vs concrete
	if x[0].Kind == aDec && y[0].Kind == aConc {
		return decVsConc(x, y)
	}
	if y[0].Kind == aDec && x[0].Kind == aConc {
		return decVsConc(y, x)
	}
	return nil, false
}

func trimEmpty(a []Atom) []Atom {
	out := a[:0:0]
	for _, x := range a {
		if x.Kind == aConc && x.S == "" {
			continue
		}
		out = append(out, x)
	}
	return out
}

// sepAfter: the remainder is empty or starts with a concrete byte that cannot
// be part of a decimal numeral.
func sepAfter(rest []Atom) bool {
	if len(rest) == 0 {
		return true
	}
	if rest[0].Kind == aConc && len(rest[0].S) > 0 {
		c := rest[0].S[0]
		return !(c >= '0' && c <= '9')
	}
	return false
}

// decVsConc: x starts with dec(t) and is followed by a separator (or nothing);
// y starts with concrete text.
func decVsConc(x, y []Atom) (*smt.Term, bool) {
	if !sepAfter(x[1:]) {
		return nil, false
	}
	s := y[0].S
	// longest prefix of s that looks like -?[0-9]+
	i := 0
	if i < len(s) && s[i] == '-' {
		i++
	}
	for i < len(s) && s[i] >= '0' && s[i] <= '9' {
		i++
	}
	if i < len(s) || len(y) == 1 {
		// the numeral in y ends inside this concrete atom (or y ends)
		num := s[:i]
		if !isCanonicalDec(num) {
			return smt.False, true
		}
		k, _ := new(big.Int).SetString(num, 10)
		ny := append([]Atom{{Kind: aConc, S: s[i:]}}, y[1:]...)
		rest, ok := atomsEq(x[1:], trimEmpty(ny))
		if !ok {
			return nil, false
		}
		return smt.And(smt.Eq(x[0].T, smt.Int(k)), rest), true
	}
	return nil, false
}

func mkStrRaw(atoms []Atom) Value {
	if len(atoms) == 0 {
		return ""
	}
	return &SymStr{Atoms: atoms}
}

// splitStr implements strings.Split for a concrete, non-empty separator that
// cannot occur inside a dec atom (no digits or '-' in sep) and symbolic bytes
// are handled by the caller (refused here).
func splitStr(v Value, sep string) []Value {
	if s, ok := v.(string); ok {
		parts := strings.Split(s, sep)
		out := make([]Value, len(parts))
		for i, p := range parts {
			out[i] = p
		}
		return out
	}
	if sep == "" {
		vmErr("strings.Split with empty separator on a symbolic string")
	}
	for i := 0; i < len(sep); i++ {
		if (sep[i] >= '0' && sep[i] <= '9') || sep[i] == '-' {
			vmErr("strings.Split: separator %q may occur inside a decimal atom", sep)
		}
	}
	atoms := atomsOf(v)
	for _, a := range atoms {
		if a.Kind == aByte {
			vmErr("strings.Split over symbolic bytes must be concretised first")
		}
	}
	// Separator occurrences can only lie inside concrete atoms when len(sep)==1;
	// for longer separators an occurrence could straddle atoms only if it
	// contained digits, which was excluded above.
	var out []Value
	var cur []Atom
	for _, a := range atoms {
		if a.Kind != aConc {
			cur = append(cur, a)
			continue
		}
		pieces := strings.Split(a.S, sep)
		for i, p := range pieces {
			if i > 0 {
				out = append(out, mkStr(cur))
				cur = nil
			}
			if p != "" {
				cur = append(cur, Atom{Kind: aConc, S: p})
			}
		}
	}
	out = append(out, mkStr(cur))
	return out
}

// sliceBeforeDec slices a string with decimal atoms when the bounds fall into the part
// before the first decimal atom (where byte positions are known).
func sliceBeforeDec(as []Atom, lo, hi int, hasHi bool) (Value, bool) {
	var prefix []Value
	k := 0
	for ; k < len(as) && as[k].Kind != aDec; k++ {
		switch as[k].Kind {
		case aConc:
			for i := 0; i < len(as[k].S); i++ {
				prefix = append(prefix, int64(as[k].S[i]))
			}
		case aByte:
			prefix = append(prefix, as[k].T)
		}
	}
	if lo < 0 || lo > len(prefix) {
		return nil, false
	}
	if hasHi {
		if hi < lo || hi > len(prefix) {
			return nil, false
		}
		return strFromBytes(prefix[lo:hi]), true
	}
	head := atomsOf(strFromBytes(prefix[lo:]))
	return mkStr(append(append([]Atom{}, head...), as[k:]...)), true
}

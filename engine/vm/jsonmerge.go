package vm

import (
	"go/types"
	"reflect"
	"strings"
)

// Value-carrying model of json.Unmarshal: the document is the Go value that was
// marshalled (JSONBlob). Decoding follows encoding/json's rules for the shapes the
// CLI uses: a struct document is matched to the target struct field by field by
// JSON key (case-insensitively); keys the document lacks leave the target field
// alone; a map in the document is decoded into the existing map when there is one
// (entries added / replaced key by key, each element decoded afresh); null sets
// maps and pointers to nil; everything decoded is a fresh copy.

func jsonKey(st *types.Struct, i int) (key string, omitEmpty, skip bool) {
	f := st.Field(i)
	if !f.Exported() {
		return "", false, true
	}
	tag := reflect.StructTag(st.Tag(i)).Get("json")
	if tag == "-" {
		return "", false, true
	}
	parts := strings.Split(tag, ",")
	key = f.Name()
	if parts[0] != "" {
		key = parts[0]
	}
	for _, p := range parts[1:] {
		if p == "omitempty" {
			omitEmpty = true
		}
	}
	return key, omitEmpty, false
}

func jsonEmpty(v Value) bool {
	switch x := v.(type) {
	case nil:
		return true
	case bool:
		return !x
	case int64:
		return x == 0
	case string:
		return x == ""
	case *Map:
		return x == nil || len(x.entries) == 0
	case Slice:
		return len(x) == 0
	case *Value:
		return x == nil
	case Iface:
		return x.T == nil
	}
	return false
}

// jsonFresh returns a deep copy of a decoded value (fresh maps, slices and pointees).
func (vm *VM) jsonFresh(v Value) Value {
	switch x := v.(type) {
	case *Map:
		if x == nil {
			return x
		}
		m := vm.newMap()
		for _, e := range x.entries {
			m.entries = append(m.entries, mapEntry{e.K, vm.jsonFresh(e.V)})
		}
		return m
	case Slice:
		if x == nil {
			return x
		}
		c := make(Slice, len(x))
		for i, e := range x {
			c[i] = vm.jsonFresh(e)
		}
		return c
	case Struct:
		c := make(Struct, len(x))
		for i, e := range x {
			c[i] = vm.jsonFresh(e)
		}
		return c
	case Array:
		c := make(Array, len(x))
		for i, e := range x {
			c[i] = vm.jsonFresh(e)
		}
		return c
	case *Value:
		if x == nil {
			return x
		}
		switch p := (*x).(type) {
		case BigVal:
			return vm.newCell(BigVal{T: p.T, Lazy: p.Lazy, Buf: &bigBuf{}})
		default:
			return vm.newCell(vm.jsonFresh(p))
		}
	}
	return v
}

// jsonDecodeInto decodes document value src (of type st) into the cell dst (of type dt).
func (vm *VM) jsonDecodeInto(dst *Value, dt types.Type, src Value, st types.Type) {
	du, su := dt.Underlying(), st.Underlying()
	switch d := du.(type) {
	case *types.Struct:
		s, ok := su.(*types.Struct)
		if !ok {
			vmErr("json.Unmarshal stub: document of type %v into struct %v", st, dt)
		}
		cur, _ := (*dst).(Struct)
		if cur == nil {
			vmErr("json.Unmarshal stub: target cell does not hold a struct")
		}
		sv, _ := src.(Struct)
		for i := 0; i < s.NumFields(); i++ {
			key, omit, skip := jsonKey(s, i)
			if skip || (omit && jsonEmpty(sv[i])) {
				continue
			}
			for j := 0; j < d.NumFields(); j++ {
				tk, _, tskip := jsonKey(d, j)
				if tskip || !strings.EqualFold(tk, key) {
					continue
				}
				vm.jsonDecodeInto(&cur[j], d.Field(j).Type(), sv[i], s.Field(i).Type())
				break
			}
		}
		return
	case *types.Map:
		sm, ok := src.(*Map)
		if !ok {
			vmErr("json.Unmarshal stub: document %s into map %v", describe(src), dt)
		}
		if sm == nil {
			vm.store(dst, (*Map)(nil)) // null
			return
		}
		cur, _ := (*dst).(*Map)
		if cur == nil {
			cur = vm.newMap()
			vm.store(dst, cur)
		}
		for _, e := range sm.entries {
			vm.mapSet(cur, e.K, vm.jsonFresh(e.V))
		}
		return
	}
	if !types.Identical(dt, st) {
		vmErr("json.Unmarshal stub: document of type %v into %v", st, dt)
	}
	vm.store(dst, vm.jsonFresh(src))
}

package vm

import (
	"fmt"
	"os"
	"path/filepath"
	"strings"

	"golang.org/x/tools/go/packages"
	"golang.org/x/tools/go/ssa"
	"golang.org/x/tools/go/ssa/ssautil"
)

const RepoModule = "github.com/formancehq/numscript"

type Loaded struct {
	Prog     *ssa.Program
	Pkgs     []*ssa.Package
	PkgErrs  map[string][]string // package path -> type errors (stale harness anchors)
	Overlay  map[string][]byte
	RepoDir  string
	Harness  map[string]string // virtual path -> real path (for go test -overlay)
	Patterns []string
}

// HarnessFile describes one overlay file: Dir is the repo-relative package
// directory ("" for the root package), Src the real path under /verif/harness.
type HarnessFile struct {
	Dir  string
	Name string
	Src  string
}

// Load type-checks and builds SSA for the given repo packages with the harness
// files overlaid. A harness that does not type-check is dropped (stale anchor)
// and the load is retried without it.
func Load(repoDir string, files []HarnessFile, patterns []string) (*Loaded, error) {
	ld := &Loaded{RepoDir: repoDir, PkgErrs: map[string][]string{}, Harness: map[string]string{}, Patterns: patterns}
	active := append([]HarnessFile{}, files...)
	for attempt := 0; attempt < 4; attempt++ {
		overlay := map[string][]byte{}
		virt := map[string]string{}
		for _, f := range active {
			b, err := os.ReadFile(f.Src)
			if err != nil {
				return nil, err
			}
			v := filepath.Join(repoDir, f.Dir, f.Name)
			overlay[v] = b
			virt[v] = f.Src
		}
		cfg := &packages.Config{
			Mode:    packages.LoadAllSyntax,
			Dir:     repoDir,
			Overlay: overlay,
			Env:     append(os.Environ(), "GOFLAGS=-mod=mod", "GOPROXY=off", "GOSUMDB=off", "GOTOOLCHAIN=local"),
		}
		pkgs, err := packages.Load(cfg, patterns...)
		if err != nil {
			return nil, err
		}
		bad := map[string]bool{}
		packages.Visit(pkgs, nil, func(p *packages.Package) {
			if !strings.HasPrefix(p.PkgPath, RepoModule) {
				return
			}
			for _, e := range p.Errors {
				ld.PkgErrs[p.PkgPath] = append(ld.PkgErrs[p.PkgPath], e.Error())
				// which overlay file is at fault?
				for v := range overlay {
					if strings.Contains(e.Pos, filepath.Base(v)) || strings.Contains(e.Msg, filepath.Base(v)) {
						bad[v] = true
					}
				}
				if len(bad) == 0 {
					bad["pkg:"+p.PkgPath] = true
				}
			}
		})
		if len(bad) == 0 {
			prog, spkgs := ssautil.AllPackages(pkgs, ssa.InstantiateGenerics)
			prog.Build()
			ld.Prog = prog
			ld.Pkgs = spkgs
			ld.Overlay = overlay
			ld.Harness = virt
			return ld, nil
		}
		// drop the harness files at fault and retry; errors in the repo itself are fatal
		var next []HarnessFile
		dropped := false
		for _, f := range active {
			v := filepath.Join(repoDir, f.Dir, f.Name)
			pkgBad := false
			for b := range bad {
				if strings.HasPrefix(b, "pkg:") {
					pkgBad = true
				}
			}
			if bad[v] || pkgBad && strings.HasPrefix(f.Name, "zz_") {
				dropped = true
				continue
			}
			next = append(next, f)
		}
		if !dropped {
			return nil, fmt.Errorf("repo packages do not type-check: %v", ld.PkgErrs)
		}
		active = next
	}
	return nil, fmt.Errorf("could not load packages: %v", ld.PkgErrs)
}

package vm

import (
	"go/constant"
	"go/token"
	"go/types"
	"math"
	"math/big"

	"github.com/formancehq/numscript/zzverif/smt"
	"golang.org/x/tools/go/ssa"
)

func intInfo(t types.Type) (bits int, signed bool, ok bool) {
	b, isB := t.Underlying().(*types.Basic)
	if !isB {
		return 0, false, false
	}
	switch b.Kind() {
	case types.Int, types.Int64, types.UntypedInt, types.UntypedRune:
		return 64, true, true
	case types.Int32:
		return 32, true, true
	case types.Int16:
		return 16, true, true
	case types.Int8:
		return 8, true, true
	case types.Uint, types.Uint64, types.Uintptr:
		return 64, false, true
	case types.Uint32:
		return 32, false, true
	case types.Uint16:
		return 16, false, true
	case types.Uint8:
		return 8, false, true
	}
	return 0, false, false
}

// wrapConc truncates x to the integer type.
func wrapConc(x int64, bits int, signed bool) int64 {
	switch bits {
	case 64:
		return x
	case 32:
		if signed {
			return int64(int32(x))
		}
		return int64(uint32(x))
	case 16:
		if signed {
			return int64(int16(x))
		}
		return int64(uint16(x))
	case 8:
		if signed {
			return int64(int8(x))
		}
		return int64(uint8(x))
	}
	return x
}

func pow2(n int) *big.Int { return new(big.Int).Lsh(big.NewInt(1), uint(n)) }

// wrapTerm applies two's-complement wrap to a mathematical-integer term.
func wrapTerm(t *smt.Term, bits int, signed bool) *smt.Term {
	m := smt.Int(pow2(bits))
	if !signed {
		return smt.Mod(t, m)
	}
	h := smt.Int(pow2(bits - 1))
	return smt.Sub(smt.Mod(smt.Add(t, h), m), h)
}

func (vm *VM) constValue(c *ssa.Const) Value {
	if c.Value == nil {
		return vm.zero(c.Type())
	}
	t := c.Type().Underlying()
	if b, ok := t.(*types.Basic); ok {
		switch {
		case b.Info()&types.IsBoolean != 0:
			return constant.BoolVal(c.Value)
		case b.Info()&types.IsInteger != 0:
			if i, ok := constant.Int64Val(constant.ToInt(c.Value)); ok {
				return i
			}
			u, _ := constant.Uint64Val(constant.ToInt(c.Value))
			return int64(u)
		case b.Info()&types.IsFloat != 0:
			f, _ := constant.Float64Val(c.Value)
			return f
		case b.Info()&types.IsString != 0:
			return constant.StringVal(c.Value)
		}
	}
	vmErr("unsupported constant %s of type %s", c.Value, c.Type())
	return nil
}

func (vm *VM) unop(fr *frame, in *ssa.UnOp) Value {
	x := vm.get(fr, in.X)
	switch in.Op {
	case token.MUL: // load
		p, ok := x.(*Value)
		if !ok {
			vmErr("load through %T", x)
		}
		if p == nil {
			vm.goPanic("runtime error: invalid memory address or nil pointer dereference (" + vm.posOf(in) + ")")
		}
		return copyVal(*p)
	case token.NOT:
		switch b := x.(type) {
		case bool:
			return !b
		case *smt.Term:
			return fromBoolTerm(smt.Not(b))
		}
	case token.SUB:
		switch v := x.(type) {
		case int64:
			bits, signed, _ := intInfo(in.X.Type())
			return wrapConc(-v, bits, signed)
		case float64:
			return -v
		case *smt.Term:
			bits, signed, _ := intInfo(in.X.Type())
			return fromIntTerm(wrapTerm(smt.Neg(v), bits, signed), bits, signed)
		}
	case token.XOR:
		if v, ok := x.(int64); ok {
			bits, signed, _ := intInfo(in.X.Type())
			return wrapConc(^v, bits, signed)
		}
	}
	vmErr("unsupported unop %s on %T", in.Op, x)
	return nil
}

func (vm *VM) binop(op token.Token, t types.Type, x, y Value, site ssa.Instruction) Value {
	// strings
	switch x.(type) {
	case string, *SymStr, *Opaque:
		return vm.strBinop(op, x, y)
	}
	switch xv := x.(type) {
	case float64:
		yv := y.(float64)
		switch op {
		case token.ADD:
			return xv + yv
		case token.SUB:
			return xv - yv
		case token.MUL:
			return xv * yv
		case token.QUO:
			return xv / yv
		case token.EQL:
			return xv == yv
		case token.NEQ:
			return xv != yv
		case token.LSS:
			return xv < yv
		case token.LEQ:
			return xv <= yv
		case token.GTR:
			return xv > yv
		case token.GEQ:
			return xv >= yv
		}
		vmErr("float binop %s", op)
	case bool:
		switch yv := y.(type) {
		case bool:
			switch op {
			case token.EQL:
				return xv == yv
			case token.NEQ:
				return xv != yv
			case token.AND, token.LAND:
				return xv && yv
			case token.OR, token.LOR:
				return xv || yv
			}
		case *smt.Term:
			return vm.boolTermOp(op, smt.Bool(xv), yv)
		}
	}
	if bits, signed, ok := intInfo(t); ok {
		xi, xc := x.(int64)
		yi, yc := y.(int64)
		if xc && yc {
			return vm.intBinopConc(op, xi, yi, bits, signed, site)
		}
		// shifts: the shift count may have a different type; only constants supported
		return vm.intBinopSym(op, x, y, bits, signed, site)
	}
	if xt, ok := x.(*smt.Term); ok && xt.Sort == smt.SBool {
		return vm.boolTermOp(op, xt, toTerm(y))
	}
	// reference / aggregate equality
	switch op {
	case token.EQL:
		return vm.equalVals(x, y)
	case token.NEQ:
		r := vm.equalVals(x, y)
		switch b := r.(type) {
		case bool:
			return !b
		case *smt.Term:
			return fromBoolTerm(smt.Not(b))
		}
	}
	vmErr("unsupported binop %s on %T, %T (type %s)", op, x, y, t)
	return nil
}

func (vm *VM) boolTermOp(op token.Token, a, b *smt.Term) Value {
	switch op {
	case token.EQL:
		return fromBoolTerm(smt.Eq(a, b))
	case token.NEQ:
		return fromBoolTerm(smt.Not(smt.Eq(a, b)))
	case token.AND, token.LAND:
		return fromBoolTerm(smt.And(a, b))
	case token.OR, token.LOR:
		return fromBoolTerm(smt.Or(a, b))
	}
	vmErr("bool binop %s", op)
	return nil
}

func (vm *VM) strBinop(op token.Token, x, y Value) Value {
	xs, xc := x.(string)
	ys, yc := y.(string)
	if xc && yc {
		switch op {
		case token.ADD:
			return xs + ys
		case token.EQL:
			return xs == ys
		case token.NEQ:
			return xs != ys
		case token.LSS:
			return xs < ys
		case token.LEQ:
			return xs <= ys
		case token.GTR:
			return xs > ys
		case token.GEQ:
			return xs >= ys
		}
	}
	switch op {
	case token.ADD:
		return concatStr(x, y)
	case token.EQL, token.NEQ:
		// the JSON text of a value is never the empty string
		if o, isO := x.(*Opaque); isO && o.Blob != nil {
			if ys, ok := y.(string); ok && ys == "" {
				return op == token.NEQ
			}
		}
		if o, isO := y.(*Opaque); isO && o.Blob != nil {
			if xs, ok := x.(string); ok && xs == "" {
				return op == token.NEQ
			}
		}
		c, ok := strEq(x, y)
		if !ok {
			vmErr("cannot decide equality of %s and %s", describe(x), describe(y))
		}
		if op == token.NEQ {
			c = smt.Not(c)
		}
		return fromBoolTerm(c)
	}
	vmErr("unsupported string binop %s on symbolic strings", op)
	return nil
}

func (vm *VM) intBinopConc(op token.Token, x, y int64, bits int, signed bool, site ssa.Instruction) Value {
	w := func(v int64) Value { return wrapConc(v, bits, signed) }
	switch op {
	case token.ADD:
		return w(x + y)
	case token.SUB:
		return w(x - y)
	case token.MUL:
		return w(x * y)
	case token.QUO:
		if y == 0 {
			vm.goPanic("runtime error: integer divide by zero")
		}
		if signed {
			if y == -1 {
				return w(-x)
			}
			return w(x / y)
		}
		return w(int64(uint64(x) / uint64(y)))
	case token.REM:
		if y == 0 {
			vm.goPanic("runtime error: integer divide by zero")
		}
		if signed {
			if y == -1 {
				return int64(0)
			}
			return w(x % y)
		}
		return w(int64(uint64(x) % uint64(y)))
	case token.AND:
		return w(x & y)
	case token.OR:
		return w(x | y)
	case token.XOR:
		return w(x ^ y)
	case token.AND_NOT:
		return w(x &^ y)
	case token.SHL:
		// y is the shift count (treated as unsigned / already checked non-negative)
		if y < 0 {
			vm.goPanic("runtime error: negative shift amount")
		}
		if y >= 64 {
			return int64(0)
		}
		return w(int64(uint64(x) << uint(y)))
	case token.SHR:
		if y < 0 {
			vm.goPanic("runtime error: negative shift amount")
		}
		if signed {
			if y >= 64 {
				if x < 0 {
					return int64(-1)
				}
				return int64(0)
			}
			return w(x >> uint(y))
		}
		if y >= 64 {
			return int64(0)
		}
		return w(int64(uint64(x) >> uint(y)))
	case token.EQL:
		return x == y
	case token.NEQ:
		return x != y
	case token.LSS:
		if signed {
			return x < y
		}
		return uint64(x) < uint64(y)
	case token.LEQ:
		if signed {
			return x <= y
		}
		return uint64(x) <= uint64(y)
	case token.GTR:
		if signed {
			return x > y
		}
		return uint64(x) > uint64(y)
	case token.GEQ:
		if signed {
			return x >= y
		}
		return uint64(x) >= uint64(y)
	}
	vmErr("int binop %s", op)
	return nil
}

func (vm *VM) intBinopSym(op token.Token, x, y Value, bits int, signed bool, site ssa.Instruction) Value {
	a := intToTerm(x, bits, signed)
	var b *smt.Term
	if op == token.SHL || op == token.SHR {
		// shift count: must be concrete
		yc, ok := y.(int64)
		if !ok {
			if yt, isT := y.(*smt.Term); isT && yt.Op == smt.OpIntConst {
				yc = yt.K.Int64()
			} else {
				vmErr("symbolic shift count")
			}
		}
		if yc < 0 {
			vm.goPanic("runtime error: negative shift amount")
		}
		if yc >= 64 {
			vmErr("shift by >= 64 on symbolic value")
		}
		p := smt.Int(pow2(int(yc)))
		if op == token.SHL {
			return fromIntTerm(wrapTerm(smt.Mul(a, p), bits, signed), bits, signed)
		}
		// arithmetic / logical right shift = floor division by 2^k on the value
		return fromIntTerm(smt.Div(a, p), bits, signed)
	}
	b = intToTerm(y, bits, signed)
	wr := func(t *smt.Term) Value { return fromIntTerm(wrapTerm(t, bits, signed), bits, signed) }
	switch op {
	case token.ADD:
		return wr(smt.Add(a, b))
	case token.SUB:
		return wr(smt.Sub(a, b))
	case token.MUL:
		if !smt.IsLinearMul(a, b) {
			var p *smt.Term
			if vm.ConcreteValues == nil {
				p = vm.pinTerm(a)
			}
			if p == nil {
				vmErr("symbolic x symbolic machine multiplication")
			}
			a = p
		}
		return wr(smt.Mul(a, b))
	case token.QUO, token.REM:
		if b.Op != smt.OpIntConst {
			vmErr("division of machine integers by a symbolic divisor")
		}
		if b.K.Sign() == 0 {
			vm.goPanic("runtime error: integer divide by zero")
		}
		// truncated division from Euclidean division, divisor constant
		babs := smt.Int(new(big.Int).Abs(b.K))
		qpos := smt.Div(a, babs)                     // a >= 0
		qneg := smt.Neg(smt.Div(smt.Neg(a), babs))   // a < 0
		q := smt.Ite(smt.Le(smt.Int64(0), a), qpos, qneg)
		if b.K.Sign() < 0 {
			q = smt.Neg(q)
		}
		if op == token.QUO {
			return wr(q)
		}
		return wr(smt.Sub(a, smt.Mul(q, b)))
	case token.AND, token.OR, token.XOR, token.AND_NOT:
		// x & (2^k - 1) == x mod 2^k for non-negative masks of that shape
		if op == token.AND && b.Op == smt.OpIntConst && b.K.Sign() >= 0 {
			m := new(big.Int).Add(b.K, big.NewInt(1))
			if m.BitLen() > 0 && new(big.Int).And(m, b.K).Sign() == 0 {
				return fromIntTerm(smt.Mod(a, smt.Int(m)), bits, signed)
			}
		}
		// one constant operand: decompose over the bits of the constant
		x, k := a, b
		if x.Op == smt.OpIntConst && k.Op != smt.OpIntConst && op != token.AND_NOT {
			x, k = k, x
		}
		if k.Op != smt.OpIntConst {
			vmErr("bitwise %s on two symbolic machine integers", op)
		}
		mod := pow2(bits)
		ku := new(big.Int).Mod(k.K, mod) // unsigned view of the constant
		xu := smt.Mod(x, smt.Int(mod))   // unsigned view of the value
		res := xu
		if op == token.AND {
			res = smt.Int64(0)
		}
		for j := 0; j < bits; j++ {
			if ku.Bit(j) == 0 {
				continue
			}
			p := smt.Int(pow2(j))
			bit := smt.Mod(smt.Div(xu, p), smt.Int64(2))
			switch op {
			case token.AND:
				res = smt.Add(res, smt.Mul(bit, p))
			case token.OR:
				res = smt.Add(res, smt.Mul(smt.Sub(smt.Int64(1), bit), p))
			case token.XOR:
				res = smt.Add(res, smt.Mul(smt.Sub(smt.Int64(1), smt.Mul(bit, smt.Int64(2))), p))
			case token.AND_NOT:
				res = smt.Sub(res, smt.Mul(bit, p))
			}
		}
		return wr(res)
	case token.EQL:
		return fromBoolTerm(smt.Eq(a, b))
	case token.NEQ:
		return fromBoolTerm(smt.Not(smt.Eq(a, b)))
	case token.LSS:
		return fromBoolTerm(smt.Lt(a, b))
	case token.LEQ:
		return fromBoolTerm(smt.Le(a, b))
	case token.GTR:
		return fromBoolTerm(smt.Lt(b, a))
	case token.GEQ:
		return fromBoolTerm(smt.Le(b, a))
	}
	vmErr("unsupported symbolic int binop %s", op)
	return nil
}

// equalVals implements == for non-numeric, non-string operands.
func (vm *VM) equalVals(x, y Value) Value {
	switch a := x.(type) {
	case nil:
		return isNilValue(y)
	case *Value:
		b, ok := y.(*Value)
		if !ok {
			return isNilValue(y) && a == nil
		}
		return a == b
	case Slice:
		return a == nil && isNilValue(y)
	case *Map:
		if b, ok := y.(*Map); ok {
			return a == b
		}
		return a == nil && isNilValue(y)
	case *Closure:
		return a == nil && isNilValue(y)
	case *ssa.Function:
		return a == nil && isNilValue(y)
	case Iface:
		b, ok := y.(Iface)
		if !ok {
			return a.T == nil && isNilValue(y)
		}
		if a.T == nil || b.T == nil {
			return a.T == nil && b.T == nil
		}
		if !types.Identical(a.T, b.T) {
			return false
		}
		return vm.equalDyn(a.T, a.V, b.V)
	case Struct:
		b := y.(Struct)
		acc := smt.True
		for i := range a {
			r := vm.equalDynAny(a[i], b[i])
			acc = smt.And(acc, toTerm(r))
		}
		return fromBoolTerm(acc)
	case Array:
		b := y.(Array)
		acc := smt.True
		for i := range a {
			r := vm.equalDynAny(a[i], b[i])
			acc = smt.And(acc, toTerm(r))
		}
		return fromBoolTerm(acc)
	case BigVal:
		// struct comparison of big.Int is not meaningful in Go (slices are not comparable)
		vmErr("== on big.Int values")
	}
	vmErr("== on %T and %T", x, y)
	return nil
}

func (vm *VM) equalDyn(t types.Type, x, y Value) Value {
	return vm.equalDynAny(x, y)
}

func (vm *VM) equalDynAny(x, y Value) Value {
	switch a := x.(type) {
	case string, *SymStr:
		return vm.strBinop(token.EQL, x, y)
	case int64:
		switch b := y.(type) {
		case int64:
			return a == b
		case *smt.Term:
			return fromBoolTerm(smt.Eq(smt.Int64(a), b))
		}
	case bool:
		switch b := y.(type) {
		case bool:
			return a == b
		case *smt.Term:
			return fromBoolTerm(smt.Eq(smt.Bool(a), b))
		}
	case float64:
		return a == y.(float64)
	case *smt.Term:
		return fromBoolTerm(smt.Eq(a, toTerm(y)))
	case BigVal, RatVal:
		vm.goPanic("runtime error: comparing uncomparable type (struct containing slice)")
	}
	return vm.equalVals(x, y)
}

func (vm *VM) convert(from, to types.Type, v Value) Value {
	fu, tu := from.Underlying(), to.Underlying()
	if _, isBlob := v.(*JSONBlob); isBlob {
		if _, ok := tu.(*types.Slice); ok {
			return v
		}
	}
	// string <-> []byte / []rune
	if tb, ok := tu.(*types.Basic); ok && tb.Info()&types.IsString != 0 {
		switch fx := fu.(type) {
		case *types.Slice:
			eb := fx.Elem().Underlying().(*types.Basic)
			if sb, ok := v.(*SymBytes); ok {
				return sb.S
			}
			if blob, ok := v.(*JSONBlob); ok {
				return &Opaque{What: "JSON text of a value", Blob: blob}
			}
			s, isSlice := v.(Slice)
			if !isSlice {
				vmErr("conversion of %s to string", describe(v))
			}
			if eb.Kind() == types.Byte || eb.Kind() == types.Uint8 {
				return strFromBytes(append([]Value{}, s...))
			}
			// []rune
			rs := make([]rune, len(s))
			for i, e := range s {
				rs[i] = rune(vm.concInt(e, "rune"))
			}
			return string(rs)
		case *types.Basic:
			if fx.Info()&types.IsString != 0 {
				return v
			}
			if fx.Info()&types.IsInteger != 0 {
				return string(rune(vm.concInt(v, "rune to string")))
			}
		}
	}
	if ts, ok := tu.(*types.Slice); ok {
		if fb, ok := fu.(*types.Basic); ok && fb.Info()&types.IsString != 0 {
			eb := ts.Elem().Underlying().(*types.Basic)
			if eb.Kind() == types.Byte || eb.Kind() == types.Uint8 {
				if _, isOp := v.(*Opaque); isOp {
					return &SymBytes{S: v}
				}
				if hasDec(atomsOf(v)) {
					return &SymBytes{S: v}
				}
				return Slice(strBytes(v))
			}
			s, ok := v.(string)
			if !ok {
				return Slice(vm.decodeRunes(strBytes(v)))
			}
			rs := []rune(s)
			out := make(Slice, len(rs))
			for i, r := range rs {
				out[i] = int64(r)
			}
			return out
		}
	}
	tbits, tsigned, tIsInt := intInfo(to)
	fbits, fsigned, fIsInt := intInfo(from)
	if tIsInt && fIsInt {
		switch x := v.(type) {
		case int64:
			// interpret according to source signedness, then truncate
			_ = fbits
			return wrapConc(x, tbits, tsigned)
		case *smt.Term:
			// value-preserving when target range includes source range
			if (tsigned == fsigned && tbits >= fbits) || (tsigned && !fsigned && tbits > fbits) {
				return x
			}
			return fromIntTerm(wrapTerm(x, tbits, tsigned), tbits, tsigned)
		}
	}
	if tb, ok := tu.(*types.Basic); ok && tb.Info()&types.IsFloat != 0 {
		switch x := v.(type) {
		case int64:
			if fIsInt && !fsigned {
				return float64(uint64(x))
			}
			return float64(x)
		case float64:
			if tb.Kind() == types.Float32 {
				return float64(float32(x))
			}
			return x
		}
		vmErr("conversion of symbolic value to float")
	}
	if tIsInt {
		if f, ok := v.(float64); ok {
			if math.IsNaN(f) || math.IsInf(f, 0) {
				vmErr("float->int conversion of NaN/Inf is implementation-defined")
			}
			if tsigned {
				return wrapConc(int64(f), tbits, tsigned)
			}
			return wrapConc(int64(uint64(f)), tbits, tsigned)
		}
	}
	// pointer / unsafe conversions, named <-> unnamed of identical underlying
	switch tu.(type) {
	case *types.Pointer:
		return v
	}
	if types.Identical(fu, tu) {
		return v
	}
	vmErr("unsupported conversion %s -> %s", from, to)
	return nil
}

package vm

import (
	"go/types"
	"math"
)

func mathPow10(n int) float64 { return math.Pow10(n) }

func typesPointer(t types.Type) types.Type { return types.NewPointer(t) }

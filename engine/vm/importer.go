package vm

import (
	"go/types"
	"math/big"
	"reflect"
	"unsafe"

	"github.com/formancehq/numscript/internal/parser"
	"github.com/formancehq/numscript/zzverif/smt"
)

// importer copies a native Go value graph into VM values, pairing reflect
// types with the SSA program's types by package path and name.
type importer struct {
	vm   *VM
	ptrs map[unsafe.Pointer]*Value
}

func (vm *VM) namedType(pkgPath, name string) types.Type {
	p := vm.Pkgs[pkgPath]
	if p == nil {
		vmErr("import: package %s not loaded", pkgPath)
	}
	obj := p.Pkg.Scope().Lookup(name)
	if obj == nil {
		vmErr("import: type %s.%s not found (AST shape changed?)", pkgPath, name)
	}
	return obj.Type()
}

func (im *importer) typeOf(rt reflect.Type) types.Type {
	if rt.PkgPath() != "" && rt.Name() != "" {
		return im.vm.namedType(rt.PkgPath(), rt.Name())
	}
	switch rt.Kind() {
	case reflect.Ptr:
		return types.NewPointer(im.typeOf(rt.Elem()))
	case reflect.Slice:
		return types.NewSlice(im.typeOf(rt.Elem()))
	case reflect.String:
		return types.Typ[types.String]
	case reflect.Int:
		return types.Typ[types.Int]
	case reflect.Int64:
		return types.Typ[types.Int64]
	case reflect.Bool:
		return types.Typ[types.Bool]
	case reflect.Uint64:
		return types.Typ[types.Uint64]
	}
	vmErr("import: unsupported reflect type %s", rt)
	return nil
}

var bigIntRT = reflect.TypeOf(big.Int{})

func (im *importer) val(rv reflect.Value) Value {
	rt := rv.Type()
	if rt == bigIntRT {
		if rv.CanAddr() {
			return BigVal{T: smt.Int(rv.Addr().Interface().(*big.Int)), Buf: &bigBuf{}}
		}
		c := reflect.New(rt).Elem()
		c.Set(rv)
		return BigVal{T: smt.Int(c.Addr().Interface().(*big.Int)), Buf: &bigBuf{}}
	}
	switch rv.Kind() {
	case reflect.String:
		return rv.String()
	case reflect.Bool:
		return rv.Bool()
	case reflect.Int, reflect.Int8, reflect.Int16, reflect.Int32, reflect.Int64:
		return rv.Int()
	case reflect.Uint, reflect.Uint8, reflect.Uint16, reflect.Uint32, reflect.Uint64:
		return int64(rv.Uint())
	case reflect.Float64:
		return rv.Float()
	case reflect.Struct:
		s := make(Struct, rv.NumField())
		for i := range s {
			f := rv.Field(i)
			if !f.CanInterface() {
				if f.CanAddr() {
					f = reflect.NewAt(f.Type(), unsafe.Pointer(f.UnsafeAddr())).Elem()
				} else {
					vmErr("import: unexported non-addressable field %s.%s", rt, rt.Field(i).Name)
				}
			}
			s[i] = im.val(f)
		}
		return s
	case reflect.Ptr:
		if rv.IsNil() {
			return (*Value)(nil)
		}
		key := unsafe.Pointer(rv.Pointer())
		if p, ok := im.ptrs[key]; ok {
			return p
		}
		cell := im.vm.newCell(nil)
		im.ptrs[key] = cell
		*cell = im.val(rv.Elem())
		return cell
	case reflect.Slice:
		if rv.IsNil() {
			return Slice(nil)
		}
		s := make(Slice, rv.Len())
		for i := range s {
			s[i] = im.val(rv.Index(i))
		}
		return s
	case reflect.Interface:
		if rv.IsNil() {
			return Iface{}
		}
		e := rv.Elem()
		return Iface{T: im.typeOf(e.Type()), V: im.val(e)}
	}
	vmErr("import: unsupported kind %s (%s)", rv.Kind(), rt)
	return nil
}

// ImportParseResult parses natively with the real parser and imports the result.
func (vm *VM) ImportParseResult(src string) Value {
	var res parser.ParseResult
	func() {
		defer func() {
			if r := recover(); r != nil {
				// the native parser itself panicked: surface it as a Go panic of the code under test
				vm.stack = append(vm.stack, RepoModule+"/internal/parser.Parse")
				vm.goPanic("native parser panic: " + describeAny(r))
			}
		}()
		res = parser.Parse(src)
	}()
	im := &importer{vm: vm, ptrs: map[unsafe.Pointer]*Value{}}
	return im.val(reflect.ValueOf(&res).Elem())
}

func describeAny(r interface{}) string {
	if e, ok := r.(error); ok {
		return e.Error()
	}
	if s, ok := r.(string); ok {
		return s
	}
	return "panic"
}

func registerParser(vm *VM) {
	vm.intrinsics[RepoModule+"/internal/parser.Parse"] = func(vm *VM, _ *frame, a []Value) Value {
		s, ok := a[0].(string)
		if !ok {
			vmErr("parser.Parse on a symbolic string: the ANTLR parser is outside the encoding")
		}
		return vm.ImportParseResult(s)
	}
}

func registerIntrinsics(vm *VM) {
	registerBig(vm)
	registerStr(vm)
	registerZZ(vm)
	registerParser(vm)
	registerMisc(vm)
	registerUTF8(vm)
	registerEnv(vm)
	registerSyncMap(vm)
	registerSyncPrims(vm)
	registerAtomic(vm)
	registerSyncPool(vm)
	registerMapsPkg(vm)
	registerStringsBuilder(vm)
}

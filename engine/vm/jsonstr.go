package vm

import (
	"encoding/json"
	"fmt"
)

// jsonQuote is an exact model of encoding/json's encoding of a Go string
// (HTML escaping on, as json.Marshal does) over bytes that may be symbolic:
// every class test on a symbolic byte is a solver decision.
func (vm *VM) jsonQuote(s Value) Value {
	if cs, ok := s.(string); ok {
		b, _ := json.Marshal(cs)
		return string(b)
	}
	// decimal atoms (digits and '-') are never escaped: quote the runs between them
	if as := atomsOf(s); hasDec(as) {
		var out []Atom
		out = append(out, Atom{Kind: aConc, S: "\""})
		var run []Atom
		flush := func() {
			if len(run) == 0 {
				return
			}
			q := atomsOf(vm.jsonQuote(mkStrRaw(run)))
			// drop the surrounding quotes of the run
			q = atomsOf(vm.trimQuotes(q))
			out = append(out, q...)
			run = nil
		}
		for _, a := range as {
			if a.Kind == aDec {
				flush()
				out = append(out, a)
				continue
			}
			run = append(run, a)
		}
		flush()
		out = append(out, Atom{Kind: aConc, S: "\""})
		return mkStr(out)
	}
	bs := strBytes(s)
	out := []Value{int64('"')}
	emit := func(str string) {
		for i := 0; i < len(str); i++ {
			out = append(out, int64(str[i]))
		}
	}
	const hex = "0123456789abcdef"
	bsu := string([]byte{92, 117}) // backslash u
	i := 0
	for i < len(bs) {
		b := bs[i]
		if vm.inRange(b, 0x00, 0x7F) {
			switch {
			case vm.inRange(b, '"', '"'):
				emit(`\"`)
			case vm.inRange(b, '\\', '\\'):
				emit(`\\`)
			case vm.inRange(b, '\n', '\n'):
				emit(`\n`)
			case vm.inRange(b, '\r', '\r'):
				emit(`\r`)
			case vm.inRange(b, '\t', '\t'):
				emit(`\t`)
			case vm.inRange(b, '\b', '\b'):
				emit(`\b`)
			case vm.inRange(b, '\f', '\f'):
				emit(`\f`)
			case vm.inRange(b, '<', '<'):
				emit(bsu + "003c")
			case vm.inRange(b, '>', '>'):
				emit(bsu + "003e")
			case vm.inRange(b, '&', '&'):
				emit(bsu + "0026")
			case vm.inRange(b, 0x00, 0x1F):
				// \u00XX with the two hex digits of the byte: settle the value
				v := vm.ConcretizeInt(toTerm(b), 0, 0x1F)
				emit(`\u00` + string(hex[v>>4]) + string(hex[v&0xF]))
			default:
				out = append(out, b)
			}
			i++
			continue
		}
		size := 0
		lo2, hi2 := int64(0x80), int64(0xBF)
		switch {
		case vm.inRange(b, 0xC2, 0xDF):
			size = 2
		case vm.inRange(b, 0xE0, 0xE0):
			size, lo2 = 3, 0xA0
		case vm.inRange(b, 0xE1, 0xEC):
			size = 3
		case vm.inRange(b, 0xED, 0xED):
			size, hi2 = 3, 0x9F
		case vm.inRange(b, 0xEE, 0xEF):
			size = 3
		case vm.inRange(b, 0xF0, 0xF0):
			size, lo2 = 4, 0x90
		case vm.inRange(b, 0xF1, 0xF3):
			size = 4
		case vm.inRange(b, 0xF4, 0xF4):
			size, hi2 = 4, 0x8F
		}
		ok := size > 0 && i+size <= len(bs) && vm.inRange(bs[i+1], lo2, hi2)
		for k := 2; ok && k < size; k++ {
			ok = vm.inRange(bs[i+k], 0x80, 0xBF)
		}
		if !ok {
			emit(bsu + "fffd")
			i++
			continue
		}
		// U+2028 / U+2029 = E2 80 A8 / E2 80 A9
		if size == 3 && vm.inRange(b, 0xE2, 0xE2) && vm.inRange(bs[i+1], 0x80, 0x80) && vm.inRange(bs[i+2], 0xA8, 0xA9) {
			if vm.inRange(bs[i+2], 0xA8, 0xA8) {
				emit(bsu + "2028")
			} else {
				emit(bsu + "2029")
			}
			i += 3
			continue
		}
		for k := 0; k < size; k++ {
			out = append(out, bs[i+k])
		}
		i += size
	}
	out = append(out, int64('"'))
	return strFromBytes(out)
}

var _ = fmt.Sprint

// trimQuotes removes the first and last byte (the quotes jsonQuote put around a run).
func (vm *VM) trimQuotes(q []Atom) Value {
	bs := strBytes(mkStrRaw(q))
	if len(bs) < 2 {
		vmErr("internal: jsonQuote produced a string without quotes")
	}
	return strFromBytes(bs[1 : len(bs)-1])
}

package main

import (
	"fmt"
	"os"
	"sort"
	"strings"
	"time"

	"github.com/formancehq/numscript/zzverif/checks"
	"github.com/formancehq/numscript/zzverif/smt"
	"github.com/formancehq/numscript/zzverif/vm"
)

func main() {
	if len(os.Args) < 2 {
		fmt.Println("usage: nsverif case <pkg> <fn> args... | check <id> <tier>")
		os.Exit(2)
	}
	switch os.Args[1] {
	case "case":
		runCase(os.Args[2], os.Args[3], os.Args[4:])
	case "selftest":
		ld, err := vm.Load(checks.RepoDir, []vm.HarnessFile{checks.ZZVrtFile()}, []string{checks.PkgPath("internal/zzvrt"), checks.PkgPath("internal/interpreter")})
		if err != nil {
			fmt.Println(err)
			os.Exit(3)
		}
		m := vm.New(ld.Prog, ld.Pkgs, vm.RepoModule)
		sv, _ := smt.NewSolver("z3", 8000)
		m.Solver = sv
		m.InitRepo(nil)
		t0 := time.Now()
		n, bad := m.SelfTest(3)
		fmt.Println("comparisons:", n, "mismatches:", len(bad), "in", time.Since(t0))
		for _, b := range bad {
			fmt.Println("  ", b)
		}
	case "replay":
		os.Exit(checks.Replay(os.Args[2]))
	case "count":
		for _, id := range []string{"C01", "C02", "C03", "C04", "C05", "C06", "C07", "C08", "C09", "C10", "C11", "C12", "C13", "C14", "C15", "C16", "C17", "C18", "C19", "C20"} {
			c := checks.Registry[id]
			fmt.Printf("%s quick=%d thorough=%d\n", id, len(c.Cases("quick")), len(c.Cases("thorough")))
		}
	case "list":
		for id := range checks.Registry {
			fmt.Println(id)
		}
	case "check":
		tier := "quick"
		if len(os.Args) > 3 {
			tier = os.Args[3]
		}
		if t := os.Getenv("VERIF_TIER"); t != "" && len(os.Args) <= 3 {
			tier = t
		}
		seed := 0
		if sv := os.Getenv("VERIF_SEED"); sv != "" {
			fmt.Sscan(sv, &seed)
		}
		os.Exit(checks.Run(os.Args[2], tier, seed, 16))
	default:
		fmt.Println("unknown command")
		os.Exit(2)
	}
}

func runCase(checkID, match string, _ []string) {
	t0 := time.Now()
	chk := checks.Registry[checkID]
	if chk == nil {
		fmt.Println("unknown check")
		os.Exit(2)
	}
	tier := "quick"
	if os.Getenv("VERIF_TIER") != "" {
		tier = os.Getenv("VERIF_TIER")
	}
	var spec vm.CaseSpec
	found := false
	for _, c := range chk.Cases(tier) {
		if strings.Contains(c.ID, match) {
			spec = vm.CaseSpec{ID: c.ID, Pkg: checks.PkgPath(c.Pkg), Fn: c.Fn, Args: c.Args, MapOrder: c.MapOrder}
			found = true
			break
		}
	}
	if !found {
		fmt.Println("no case matches")
		os.Exit(2)
	}
	fmt.Printf("case: %s\nargs: %q\n", spec.ID, spec.Args)
	files := append([]vm.HarnessFile{checks.ZZVrtFile()}, chk.Files...)
	patterns := []string{checks.PkgPath("internal/zzvrt")}
	for _, d := range chk.LoadPkgs {
		patterns = append(patterns, checks.PkgPath(d))
	}
	ld, err := vm.Load(checks.RepoDir, files, patterns)
	if err != nil {
		fmt.Println("load:", err)
		os.Exit(3)
	}
	fmt.Println("loaded in", time.Since(t0), ld.PkgErrs)
	m := vm.New(ld.Prog, ld.Pkgs, vm.RepoModule)
	s, err := smt.NewSolver("z3", 20000)
	if err != nil {
		panic(err)
	}
	if os.Getenv("SMTLOG") != "" {
		f, _ := os.Create(os.Getenv("SMTLOG"))
		s.Log = f
	}
	m.Solver = s
	var ip []string
	for _, d := range chk.InitPkgs {
		ip = append(ip, checks.PkgPath(d))
	}
	t1 := time.Now()
	if err := m.InitRepo(ip); err != nil {
		fmt.Println(err)
		os.Exit(3)
	}
	fmt.Println("init in", time.Since(t1))
	res := m.RunCase(spec)
	fmt.Printf("paths=%d panics=%d aborted=%d decisions=%d steps=%d queries=%d solver=%s wall=%s\n",
		res.Paths, res.PanicPaths, res.AbortedPaths, res.Decisions, res.Steps, res.Solver.Queries, res.Solver.Time, res.Wall)
	fmt.Println("reached:", res.Reached, "asserted:", res.Asserted, "discharged:", res.Discharged, "unknown:", res.Unknowns, res.AssertUnk)
	for _, l := range res.InconclusiveList() {
		fmt.Println("INCONCLUSIVE:", l)
	}
	for _, f := range res.Findings {
		keys := make([]string, 0)
		for k := range f.Model {
			keys = append(keys, k)
		}
		sort.Strings(keys)
		fmt.Printf("FINDING %s %s %s\n", f.Kind, f.ID, f.Msg)
		for _, k := range keys {
			fmt.Printf("   %s = %s\n", k, f.Model[k])
		}
		if f.Kind == "panic" {
			fmt.Println("   stack:", f.Stack)
		}
	}
	s.Close()
}

package main

import (
	"fmt"
	"os"
	"sort"
	"time"

	"github.com/formancehq/numscript/zzverif/checks"
	"github.com/formancehq/numscript/zzverif/smt"
	"github.com/formancehq/numscript/zzverif/vm"
)

func main() {
	if len(os.Args) < 2 {
		fmt.Println("usage: nsverif case <pkg> <fn> args... | check <id> <tier>")
		os.Exit(2)
	}
	switch os.Args[1] {
	case "case":
		runCase(os.Args[2], os.Args[3], os.Args[4:])
	case "replay":
		os.Exit(checks.Replay(os.Args[2]))
	case "list":
		for id := range checks.Registry {
			fmt.Println(id)
		}
	case "check":
		tier := "quick"
		if len(os.Args) > 3 {
			tier = os.Args[3]
		}
		if t := os.Getenv("VERIF_TIER"); t != "" && len(os.Args) <= 3 {
			tier = t
		}
		seed := 0
		if sv := os.Getenv("VERIF_SEED"); sv != "" {
			fmt.Sscan(sv, &seed)
		}
		os.Exit(checks.Run(os.Args[2], tier, seed, 16))
	default:
		fmt.Println("unknown command")
		os.Exit(2)
	}
}

func runCase(pkg, fn string, args []string) {
	t0 := time.Now()
	files := []vm.HarnessFile{
		{Dir: "internal/zzvrt", Name: "zzvrt.go", Src: "/verif/harness/zzvrt/zzvrt.go"},
		{Dir: "internal/interpreter", Name: "zz_verif_c07.go", Src: "/verif/harness/interpreter/zz_verif_c07.go"},
	}
	ld, err := vm.Load("/repo", files, []string{vm.RepoModule + "/internal/interpreter", vm.RepoModule + "/internal/zzvrt"})
	if err != nil {
		fmt.Println("load:", err)
		os.Exit(3)
	}
	fmt.Println("loaded in", time.Since(t0), ld.PkgErrs)
	m := vm.New(ld.Prog, ld.Pkgs, vm.RepoModule)
	s, err := smt.NewSolver("z3", 10000)
	if err != nil {
		panic(err)
	}
	if os.Getenv("SMTLOG") != "" {
		f, _ := os.Create(os.Getenv("SMTLOG"))
		s.Log = f
	}
	m.Solver = s
	if err := m.InitRepo([]string{vm.RepoModule + "/internal/interpreter"}); err != nil {
		fmt.Println(err)
		os.Exit(3)
	}
	res := m.RunCase(vm.CaseSpec{ID: "dbg", Pkg: vm.RepoModule + "/" + pkg, Fn: fn, Args: args})
	fmt.Printf("paths=%d panics=%d aborted=%d decisions=%d steps=%d queries=%d solver=%s wall=%s\n",
		res.Paths, res.PanicPaths, res.AbortedPaths, res.Decisions, res.Steps, res.Solver.Queries, res.Solver.Time, res.Wall)
	fmt.Println("reached:", res.Reached, "asserted:", res.Asserted, "discharged:", res.Discharged, "unknown:", res.Unknowns, res.AssertUnk)
	for _, l := range res.InconclusiveList() {
		fmt.Println("INCONCLUSIVE:", l)
	}
	for _, f := range res.Findings {
		keys := make([]string, 0)
		for k := range f.Model {
			keys = append(keys, k)
		}
		sort.Strings(keys)
		fmt.Printf("FINDING %s %s %s\n", f.Kind, f.ID, f.Msg)
		for _, k := range keys {
			fmt.Printf("   %s = %s\n", k, f.Model[k])
		}
		if f.Kind == "panic" {
			fmt.Println("   stack:", f.Stack)
		}
	}
	s.Close()
}

module github.com/formancehq/numscript/zzverif

go 1.23

require (
	github.com/antlr4-go/antlr/v4 v4.13.1
	github.com/formancehq/numscript v0.0.0
	golang.org/x/tools v0.29.0
)

require (
	golang.org/x/exp v0.0.0-20240707233637-46b078467d37 // indirect
	golang.org/x/mod v0.22.0 // indirect
	golang.org/x/sync v0.10.0 // indirect
)

replace github.com/formancehq/numscript => /repo

// Package smt holds the term language the symbolic VM builds and the pipe to
// the SMT solver. Terms are immutable; constructors simplify eagerly so that
// concrete computations never reach the solver.
package smt

import (
	"fmt"
	"math/big"
	"strings"
)

type Sort int

const (
	SInt Sort = iota
	SBool
)

type Op int

const (
	OpVar Op = iota
	OpIntConst
	OpBoolConst
	OpAdd
	OpSub
	OpMul
	OpNeg
	OpDiv // SMT-LIB Euclidean div
	OpMod // SMT-LIB Euclidean mod
	OpIte
	OpEq
	OpLt
	OpLe
	OpNot
	OpAnd
	OpOr
)

type Term struct {
	Op   Op
	Sort Sort
	Args []*Term
	K    *big.Int
	B    bool
	Name string
	str  string
	size int
}

var (
	True  = &Term{Op: OpBoolConst, Sort: SBool, B: true, size: 1}
	False = &Term{Op: OpBoolConst, Sort: SBool, B: false, size: 1}
)

func Bool(b bool) *Term {
	if b {
		return True
	}
	return False
}

func Int(k *big.Int) *Term {
	return &Term{Op: OpIntConst, Sort: SInt, K: new(big.Int).Set(k), size: 1}
}

func Int64(k int64) *Term { return Int(big.NewInt(k)) }

func Var(name string, s Sort) *Term {
	return &Term{Op: OpVar, Sort: s, Name: name, size: 1}
}

func (t *Term) IsConst() bool { return t.Op == OpIntConst || t.Op == OpBoolConst }

func (t *Term) Size() int { return t.size }

func mk(op Op, s Sort, args ...*Term) *Term {
	sz := 1
	for _, a := range args {
		sz += a.size
	}
	return &Term{Op: op, Sort: s, Args: args, size: sz}
}

// Equal is structural equality (pointer fast path).
func Equal(a, b *Term) bool {
	if a == b {
		return true
	}
	if a.Op != b.Op || a.Sort != b.Sort || len(a.Args) != len(b.Args) || a.size != b.size {
		return false
	}
	switch a.Op {
	case OpVar:
		return a.Name == b.Name
	case OpIntConst:
		return a.K.Cmp(b.K) == 0
	case OpBoolConst:
		return a.B == b.B
	}
	for i := range a.Args {
		if !Equal(a.Args[i], b.Args[i]) {
			return false
		}
	}
	return true
}

func Add(a, b *Term) *Term {
	if a.Op == OpIntConst && b.Op == OpIntConst {
		return Int(new(big.Int).Add(a.K, b.K))
	}
	if a.Op == OpIntConst && a.K.Sign() == 0 {
		return b
	}
	if b.Op == OpIntConst && b.K.Sign() == 0 {
		return a
	}
	// (x + k1) + k2
	if b.Op == OpIntConst && a.Op == OpAdd && a.Args[1].Op == OpIntConst {
		return Add(a.Args[0], Int(new(big.Int).Add(a.Args[1].K, b.K)))
	}
	// (x - y) + y  => x
	if a.Op == OpSub && Equal(a.Args[1], b) {
		return a.Args[0]
	}
	return mk(OpAdd, SInt, a, b)
}

func Sub(a, b *Term) *Term {
	if a.Op == OpIntConst && b.Op == OpIntConst {
		return Int(new(big.Int).Sub(a.K, b.K))
	}
	if b.Op == OpIntConst && b.K.Sign() == 0 {
		return a
	}
	if Equal(a, b) {
		return Int64(0)
	}
	if b.Op == OpIntConst {
		return Add(a, Int(new(big.Int).Neg(b.K)))
	}
	return mk(OpSub, SInt, a, b)
}

func Neg(a *Term) *Term {
	if a.Op == OpIntConst {
		return Int(new(big.Int).Neg(a.K))
	}
	if a.Op == OpNeg {
		return a.Args[0]
	}
	return mk(OpNeg, SInt, a)
}

// constLeaves reports whether t is an ite tree whose leaves are all constants.
func constLeaves(t *Term) bool {
	if t.Op == OpIntConst {
		return true
	}
	if t.Op == OpIte {
		return constLeaves(t.Args[1]) && constLeaves(t.Args[2])
	}
	return false
}

// Mul refuses nothing itself; the caller decides whether a symbolic x symbolic
// product is acceptable (IsLinearMul).
func Mul(a, b *Term) *Term {
	if a.Op == OpIntConst && b.Op == OpIntConst {
		return Int(new(big.Int).Mul(a.K, b.K))
	}
	if a.Op == OpIntConst {
		a, b = b, a
	}
	if b.Op == OpIntConst {
		if b.K.Sign() == 0 {
			return Int64(0)
		}
		if b.K.Cmp(big.NewInt(1)) == 0 {
			return a
		}
		if a.Op == OpIte && constLeaves(a) {
			return Ite(a.Args[0], Mul(a.Args[1], b), Mul(a.Args[2], b))
		}
		return mk(OpMul, SInt, a, b)
	}
	// distribute over ite-of-constants so the product stays linear
	if b.Op == OpIte && constLeaves(b) {
		return Ite(b.Args[0], Mul(a, b.Args[1]), Mul(a, b.Args[2]))
	}
	if a.Op == OpIte && constLeaves(a) {
		return Ite(a.Args[0], Mul(a.Args[1], b), Mul(a.Args[2], b))
	}
	return mk(OpMul, SInt, a, b)
}

// IsLinearMul reports whether Mul(a,b) stays within linear arithmetic.
func IsLinearMul(a, b *Term) bool {
	return constLeaves(a) || constLeaves(b)
}

// Div is Euclidean division (SMT-LIB div): the remainder is always >= 0.
func Div(a, b *Term) *Term {
	// paired distribution: both operands are ite chains over the same conditions
	// (numerator / denominator of a normalised rational)
	if a.Op == OpIte && b.Op == OpIte && Equal(a.Args[0], b.Args[0]) {
		return Ite(a.Args[0], Div(a.Args[1], b.Args[1]), Div(a.Args[2], b.Args[2]))
	}
	if b.Op == OpIntConst && b.K.Sign() != 0 {
		if a.Op == OpIntConst {
			q, m := new(big.Int), new(big.Int)
			q.DivMod(a.K, b.K, m)
			return Int(q)
		}
		if b.K.Cmp(big.NewInt(1)) == 0 {
			return a
		}
		// floor(floor(x/k)/m) = floor(x/(k*m)) for positive constants
		if b.K.Sign() > 0 && a.Op == OpDiv && a.Args[1].Op == OpIntConst && a.Args[1].K.Sign() > 0 {
			return Div(a.Args[0], Int(new(big.Int).Mul(a.Args[1].K, b.K)))
		}
		return mk(OpDiv, SInt, a, b)
	}
	if b.Op == OpIte && constLeaves(b) {
		return Ite(b.Args[0], Div(a, b.Args[1]), Div(a, b.Args[2]))
	}
	return mk(OpDiv, SInt, a, b)
}

func Mod(a, b *Term) *Term {
	if b.Op == OpIntConst && b.K.Sign() != 0 {
		if a.Op == OpIntConst {
			q, m := new(big.Int), new(big.Int)
			q.DivMod(a.K, b.K, m)
			return Int(m)
		}
		if b.K.CmpAbs(big.NewInt(1)) == 0 {
			return Int64(0)
		}
		return mk(OpMod, SInt, a, b)
	}
	if b.Op == OpIte && constLeaves(b) {
		return Ite(b.Args[0], Mod(a, b.Args[1]), Mod(a, b.Args[2]))
	}
	return mk(OpMod, SInt, a, b)
}

func Ite(c, a, b *Term) *Term {
	if c.Op == OpBoolConst {
		if c.B {
			return a
		}
		return b
	}
	if Equal(a, b) {
		return a
	}
	if a.Sort == SBool {
		if a.Op == OpBoolConst && b.Op == OpBoolConst {
			if a.B {
				return c
			}
			return Not(c)
		}
		if a.Op == OpBoolConst {
			if a.B {
				return Or(c, b)
			}
			return And(Not(c), b)
		}
		if b.Op == OpBoolConst {
			if b.B {
				return Or(Not(c), a)
			}
			return And(c, a)
		}
	}
	return mk(OpIte, a.Sort, c, a, b)
}

func cmpDistribute(f func(a, b *Term) *Term, a, b *Term) (*Term, bool) {
	if a.Op == OpIte && constLeaves(a) && b.Op == OpIntConst {
		return Ite(a.Args[0], f(a.Args[1], b), f(a.Args[2], b)), true
	}
	if b.Op == OpIte && constLeaves(b) && a.Op == OpIntConst {
		return Ite(b.Args[0], f(a, b.Args[1]), f(a, b.Args[2])), true
	}
	return nil, false
}

func Eq(a, b *Term) *Term {
	if a.Sort == SBool {
		if a.Op == OpBoolConst {
			if a.B {
				return b
			}
			return Not(b)
		}
		if b.Op == OpBoolConst {
			if b.B {
				return a
			}
			return Not(a)
		}
		if Equal(a, b) {
			return True
		}
		return mk(OpEq, SBool, a, b)
	}
	if a.Op == OpIntConst && b.Op == OpIntConst {
		return Bool(a.K.Cmp(b.K) == 0)
	}
	if Equal(a, b) {
		return True
	}
	if r, ok := cmpDistribute(Eq, a, b); ok {
		return r
	}
	return mk(OpEq, SBool, a, b)
}

func Lt(a, b *Term) *Term {
	if a.Op == OpIntConst && b.Op == OpIntConst {
		return Bool(a.K.Cmp(b.K) < 0)
	}
	if Equal(a, b) {
		return False
	}
	if r, ok := cmpDistribute(Lt, a, b); ok {
		return r
	}
	return mk(OpLt, SBool, a, b)
}

func Le(a, b *Term) *Term {
	if a.Op == OpIntConst && b.Op == OpIntConst {
		return Bool(a.K.Cmp(b.K) <= 0)
	}
	if Equal(a, b) {
		return True
	}
	if r, ok := cmpDistribute(Le, a, b); ok {
		return r
	}
	return mk(OpLe, SBool, a, b)
}

func Gt(a, b *Term) *Term { return Lt(b, a) }
func Ge(a, b *Term) *Term { return Le(b, a) }

func Not(a *Term) *Term {
	switch a.Op {
	case OpBoolConst:
		return Bool(!a.B)
	case OpNot:
		return a.Args[0]
	case OpLt:
		return Le(a.Args[1], a.Args[0])
	case OpLe:
		return Lt(a.Args[1], a.Args[0])
	}
	return mk(OpNot, SBool, a)
}

func And(a, b *Term) *Term {
	if a.Op == OpBoolConst {
		if a.B {
			return b
		}
		return False
	}
	if b.Op == OpBoolConst {
		if b.B {
			return a
		}
		return False
	}
	if Equal(a, b) {
		return a
	}
	return mk(OpAnd, SBool, a, b)
}

func Or(a, b *Term) *Term {
	if a.Op == OpBoolConst {
		if a.B {
			return True
		}
		return b
	}
	if b.Op == OpBoolConst {
		if b.B {
			return True
		}
		return a
	}
	if Equal(a, b) {
		return a
	}
	return mk(OpOr, SBool, a, b)
}

func Implies(a, b *Term) *Term { return Or(Not(a), b) }

func Min(a, b *Term) *Term { return Ite(Le(a, b), a, b) }
func Max(a, b *Term) *Term { return Ite(Le(a, b), b, a) }

func intLit(k *big.Int) string {
	if k.Sign() < 0 {
		return "(- " + new(big.Int).Neg(k).String() + ")"
	}
	return k.String()
}

var opNames = map[Op]string{
	OpAdd: "+", OpSub: "-", OpMul: "*", OpNeg: "-", OpDiv: "div", OpMod: "mod",
	OpIte: "ite", OpEq: "=", OpLt: "<", OpLe: "<=", OpNot: "not", OpAnd: "and", OpOr: "or",
}

// String renders SMT-LIB2.
func (t *Term) String() string {
	if t.str != "" {
		return t.str
	}
	var s string
	switch t.Op {
	case OpVar:
		s = t.Name
	case OpIntConst:
		s = intLit(t.K)
	case OpBoolConst:
		if t.B {
			s = "true"
		} else {
			s = "false"
		}
	default:
		var sb strings.Builder
		sb.WriteByte('(')
		sb.WriteString(opNames[t.Op])
		for _, a := range t.Args {
			sb.WriteByte(' ')
			sb.WriteString(a.String())
		}
		sb.WriteByte(')')
		s = sb.String()
	}
	t.str = s
	return s
}

// Vars collects the free variables of t into out.
func (t *Term) Vars(out map[string]Sort) {
	if t.Op == OpVar {
		out[t.Name] = t.Sort
		return
	}
	for _, a := range t.Args {
		a.Vars(out)
	}
}

// Eval evaluates t under a model (missing variables default to 0 / false).
func (t *Term) Eval(m map[string]*big.Int) (*big.Int, bool) {
	switch t.Op {
	case OpVar:
		v, ok := m[t.Name]
		if !ok {
			v = big.NewInt(0)
		}
		if t.Sort == SBool {
			return nil, v.Sign() != 0
		}
		return v, false
	case OpIntConst:
		return t.K, false
	case OpBoolConst:
		return nil, t.B
	}
	ai := make([]*big.Int, len(t.Args))
	ab := make([]bool, len(t.Args))
	for i, a := range t.Args {
		ai[i], ab[i] = a.Eval(m)
	}
	switch t.Op {
	case OpAdd:
		return new(big.Int).Add(ai[0], ai[1]), false
	case OpSub:
		return new(big.Int).Sub(ai[0], ai[1]), false
	case OpMul:
		return new(big.Int).Mul(ai[0], ai[1]), false
	case OpNeg:
		return new(big.Int).Neg(ai[0]), false
	case OpDiv:
		if ai[1].Sign() == 0 {
			return big.NewInt(0), false
		}
		q, r := new(big.Int), new(big.Int)
		q.DivMod(ai[0], ai[1], r)
		return q, false
	case OpMod:
		if ai[1].Sign() == 0 {
			return big.NewInt(0), false
		}
		q, r := new(big.Int), new(big.Int)
		q.DivMod(ai[0], ai[1], r)
		return r, false
	case OpIte:
		if ab[0] {
			return ai[1], ab[1]
		}
		return ai[2], ab[2]
	case OpEq:
		if t.Args[0].Sort == SBool {
			return nil, ab[0] == ab[1]
		}
		return nil, ai[0].Cmp(ai[1]) == 0
	case OpLt:
		return nil, ai[0].Cmp(ai[1]) < 0
	case OpLe:
		return nil, ai[0].Cmp(ai[1]) <= 0
	case OpNot:
		return nil, !ab[0]
	case OpAnd:
		return nil, ab[0] && ab[1]
	case OpOr:
		return nil, ab[0] || ab[1]
	}
	panic(fmt.Sprintf("eval: bad op %d", t.Op))
}

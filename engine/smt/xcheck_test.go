package smt

import (
	"math/big"
	"os"
	"path/filepath"
	"testing"
)

// A second solver that contradicts an unsat verdict must turn it into sat with its model.
func TestCrossCheckDisagreementOverridesUnsat(t *testing.T) {
	dir := t.TempDir()
	fake := "#!/bin/sh\ncat >/dev/null\necho sat\necho '((x 7))'\n"
	if err := os.WriteFile(filepath.Join(dir, "cvc5"), []byte(fake), 0o755); err != nil {
		t.Fatal(err)
	}
	t.Setenv("PATH", dir+":"+os.Getenv("PATH"))
	s, err := NewSolver("z3", 5000)
	if err != nil {
		t.Fatal(err)
	}
	defer s.Close()
	s.XEvery, s.XMax = 1, 10
	x := Var("x", SInt)
	s.Assert(Gt(x, Int(big.NewInt(5))))
	s.Assert(Lt(x, Int(big.NewInt(3))))
	if r := s.Check(); r != Sat {
		t.Fatalf("verdict %v, want sat from the second solver", r)
	}
	m, err := s.Model()
	if err != nil || m["x"] == nil || m["x"].Int64() != 7 {
		t.Fatalf("model %v %v", m, err)
	}
	if s.Stats.XDisagree != 1 || len(s.XNotes) != 1 {
		t.Fatalf("stats %+v notes %v", s.Stats, s.XNotes)
	}
}

// The real second solvers agree on an unsat stack and give no model.
func TestCrossCheckAgreement(t *testing.T) {
	s, err := NewSolver("z3", 5000)
	if err != nil {
		t.Fatal(err)
	}
	defer s.Close()
	s.XEvery, s.XMax = 1, 10
	ch := Var("char", SInt) // a name cvc5 reserves under (set-logic ALL)
	s.Assert(Gt(ch, Int(big.NewInt(5))))
	s.Push()
	s.Assert(Lt(ch, Int(big.NewInt(3))))
	for i := 0; i < 2; i++ { // cvc5, then z3-new
		if r := s.Check(); r != Unsat {
			t.Fatalf("verdict %v", r)
		}
	}
	if s.Stats.XAgree != 2 || s.Stats.XUnknown != 0 {
		t.Fatalf("stats %+v", s.Stats)
	}
}

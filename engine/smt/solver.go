package smt

import (
	"bufio"
	"fmt"
	"io"
	"math/big"
	"os"
	"os/exec"
	"sort"
	"strings"
	"time"
)

type Result int

const (
	Unsat Result = iota
	Sat
	Unknown
)

func (r Result) String() string {
	return [...]string{"unsat", "sat", "unknown"}[r]
}

type Stats struct {
	Queries   int
	Sat       int
	Unsat     int
	Unknown   int
	Errors    int
	Time      time.Duration
	LastErr   string
	MaxQuery  time.Duration
	Fallbacks int
	// second-opinion cross-check of unsat verdicts (see Solver.XEvery)
	XChecked  int // unsat verdicts of the primary solver re-decided by an independent solver
	XAgree    int // ... and confirmed unsat
	XDisagree int // ... answered sat by the second solver (the verdict is then treated as sat and its model replayed)
	XUnknown  int // ... second solver gave no answer within its limit
	XTime     time.Duration
}

func (a *Stats) AddStats(b Stats) {
	a.Queries += b.Queries
	a.Sat += b.Sat
	a.Unsat += b.Unsat
	a.Unknown += b.Unknown
	a.Errors += b.Errors
	a.Fallbacks += b.Fallbacks
	a.XChecked += b.XChecked
	a.XAgree += b.XAgree
	a.XDisagree += b.XDisagree
	a.XUnknown += b.XUnknown
	a.XTime += b.XTime
	a.Time += b.Time
	if b.LastErr != "" {
		a.LastErr = b.LastErr
	}
	if b.MaxQuery > a.MaxQuery {
		a.MaxQuery = b.MaxQuery
	}
}

// Solver is one long-lived solver process driven over a pipe.
type Solver struct {
	Kind         string
	cmd          *exec.Cmd
	in           *bufio.Writer
	out          *bufio.Reader
	inRaw        io.WriteCloser
	levels       [][]string // variables declared per push level
	text         [][]string // commands sent per push level (for the fallback solver)
	fbModel      map[string]*big.Int
	Fallback     string // "" or "cvc5": one-shot second solver tried when the primary answers unknown
	FallbackUsed int
	// XEvery > 0: every XEvery-th unsat verdict of the primary solver (up to XMax per
	// solver process) is re-decided one-shot by an independent solver, alternating
	// between cvc5 and z3-new (5.1.0). A disagreement turns the verdict into sat with
	// the second solver's model, so the path is explored / the model replayed natively.
	XEvery      int
	XMax        int
	xCounter    int
	lastOneShot string
	XNotes      []string
	decl        map[string]Sort
	Stats       Stats
	Log         io.Writer // optional transcript
}

// NewSolver starts kind = "z3" | "z3-new" | "cvc5". timeoutMs bounds each query.
func NewSolver(kind string, timeoutMs int) (*Solver, error) {
	var cmd *exec.Cmd
	switch kind {
	case "z3", "z3-new":
		cmd = exec.Command(kind, "-in", fmt.Sprintf("-t:%d", timeoutMs))
	case "cvc5":
		cmd = exec.Command("cvc5", "--incremental", "--lang=smt2", "--produce-models",
			fmt.Sprintf("--tlimit-per=%d", timeoutMs))
	default:
		return nil, fmt.Errorf("unknown solver %q", kind)
	}
	inw, err := cmd.StdinPipe()
	if err != nil {
		return nil, err
	}
	outr, err := cmd.StdoutPipe()
	if err != nil {
		return nil, err
	}
	cmd.Stderr = cmd.Stdout
	if err := cmd.Start(); err != nil {
		return nil, err
	}
	s := &Solver{Kind: kind, cmd: cmd, in: bufio.NewWriterSize(inw, 1<<16), out: bufio.NewReaderSize(outr, 1<<16),
		inRaw: inw, levels: [][]string{nil}, text: [][]string{nil}, decl: map[string]Sort{}}
	if kind == "cvc5" {
		s.send("(set-logic ALL)")
	}
	s.send("(set-option :produce-models true)")
	return s, nil
}

func (s *Solver) send(line string) {
	if s.Log != nil {
		fmt.Fprintln(s.Log, line)
	}
	s.in.WriteString(line)
	s.in.WriteByte('\n')
}

func (s *Solver) Close() {
	if s.cmd == nil {
		return
	}
	s.send("(exit)")
	s.in.Flush()
	s.inRaw.Close()
	done := make(chan struct{})
	go func() { s.cmd.Wait(); close(done) }()
	select {
	case <-done:
	case <-time.After(2 * time.Second):
		s.cmd.Process.Kill()
	}
	s.cmd = nil
}

func (s *Solver) Level() int { return len(s.levels) - 1 }

func (s *Solver) Push() {
	s.send("(push 1)")
	s.levels = append(s.levels, nil)
	s.text = append(s.text, nil)
}

func (s *Solver) Pop() {
	if len(s.levels) <= 1 {
		return
	}
	s.send("(pop 1)")
	top := s.levels[len(s.levels)-1]
	for _, n := range top {
		delete(s.decl, n)
	}
	s.levels = s.levels[:len(s.levels)-1]
	s.text = s.text[:len(s.text)-1]
}

// PopTo pops until the given level.
func (s *Solver) PopTo(level int) {
	for s.Level() > level {
		s.Pop()
	}
}

func (s *Solver) declare(t *Term) {
	vars := map[string]Sort{}
	t.Vars(vars)
	if len(vars) == 0 {
		return
	}
	names := make([]string, 0, len(vars))
	for n := range vars {
		if _, ok := s.decl[n]; !ok {
			names = append(names, n)
		}
	}
	sort.Strings(names)
	for _, n := range names {
		so := "Int"
		if vars[n] == SBool {
			so = "Bool"
		}
		s.send(fmt.Sprintf("(declare-const %s %s)", n, so))
		s.text[len(s.text)-1] = append(s.text[len(s.text)-1], fmt.Sprintf("(declare-const %s %s)", n, so))
		s.decl[n] = vars[n]
		s.levels[len(s.levels)-1] = append(s.levels[len(s.levels)-1], n)
	}
}

func (s *Solver) Assert(t *Term) {
	if t.Op == OpBoolConst && t.B {
		return
	}
	s.declare(t)
	s.send("(assert " + t.String() + ")")
	s.text[len(s.text)-1] = append(s.text[len(s.text)-1], "(assert "+t.String()+")")
}

// Check runs (check-sat) on the current assertion stack.
func (s *Solver) Check() Result {
	t0 := time.Now()
	s.send("(check-sat)")
	s.in.Flush()
	res := Unknown
	sawErr := false
	for {
		line, err := s.out.ReadString('\n')
		if err != nil {
			s.Stats.Errors++
			s.Stats.LastErr = "solver pipe: " + err.Error()
			res = Unknown
			break
		}
		line = strings.TrimSpace(line)
		if line == "" {
			continue
		}
		if s.Log != nil {
			fmt.Fprintln(s.Log, "; <- "+line)
		}
		if line == "sat" {
			res = Sat
			break
		}
		if line == "unsat" {
			res = Unsat
			break
		}
		if line == "unknown" || line == "timeout" {
			res = Unknown
			break
		}
		if strings.HasPrefix(line, "(error") {
			sawErr = true
			s.Stats.LastErr = line
			continue
		}
		// anything else: treat as noise but remember it
		s.Stats.LastErr = "unexpected: " + line
		sawErr = true
	}
	if sawErr {
		// any error line makes the query inconclusive
		s.Stats.Errors++
		res = Unknown
	}
	s.fbModel = nil
	if res == Unknown && s.Fallback != "" {
		res = s.fallbackCheck()
	} else if res == Unsat && s.XEvery > 0 && s.Stats.XChecked < s.XMax {
		s.xCounter++
		if s.xCounter%s.XEvery == 0 {
			res = s.crossCheck()
		}
	}
	d := time.Since(t0)
	if s.Log != nil {
		fmt.Fprintf(s.Log, "; time %s\n", d)
	}
	s.Stats.Queries++
	s.Stats.Time += d
	if d > s.Stats.MaxQuery {
		s.Stats.MaxQuery = d
	}
	switch res {
	case Sat:
		s.Stats.Sat++
	case Unsat:
		s.Stats.Unsat++
	default:
		s.Stats.Unknown++
	}
	return res
}

// CheckWith decides satisfiability of the stack plus t, leaving the stack unchanged
// unless keepModel is set and the result is Sat (then the caller must Pop).
func (s *Solver) CheckWith(t *Term, keepOnSat bool) Result {
	if t.Op == OpBoolConst && !t.B {
		return Unsat
	}
	s.Push()
	s.Assert(t)
	r := s.Check()
	if !(keepOnSat && r == Sat) {
		s.Pop()
	}
	return r
}

// crossCheck re-decides a stack the primary solver found unsat with an independent
// solver. Only a definite sat changes the verdict.
func (s *Solver) crossCheck() Result {
	t0 := time.Now()
	second := "cvc5"
	if s.Stats.XChecked%2 == 1 {
		second = "z3-new"
	}
	s.Stats.XChecked++
	r := s.oneShot(second)
	s.Stats.XTime += time.Since(t0)
	switch r {
	case Unsat:
		s.Stats.XAgree++
		return Unsat
	case Sat:
		s.Stats.XDisagree++
		if len(s.XNotes) < 5 {
			s.XNotes = append(s.XNotes, fmt.Sprintf("%s answers sat where %s answered unsat (stack of %d levels)", second, s.Kind, len(s.text)))
		}
		return Sat
	}
	s.fbModel = nil
	s.Stats.XUnknown++
	if d := os.Getenv("VERIF_XCHECK_DUMP"); d != "" && s.Stats.XUnknown <= 2 {
		os.WriteFile(fmt.Sprintf("%s/xunknown-%s-%d-%d.smt2", d, second, os.Getpid(), s.Stats.XChecked), []byte(s.lastOneShot), 0o644)
	}
	return Unsat
}

// fallbackCheck re-decides the current stack with a one-shot second solver.
func (s *Solver) fallbackCheck() Result {
	s.FallbackUsed++
	s.Stats.Fallbacks++
	return s.oneShot(s.Fallback)
}

func (s *Solver) oneShot(solver string) Result {
	var sb strings.Builder
	if solver == "cvc5" {
		// only Int and Bool constants are ever declared; under ALL cvc5 reserves
		// identifiers of other theories (a variable called `char` is rejected)
		sb.WriteString("(set-logic QF_NIA)\n(set-option :produce-models true)\n")
	} else {
		sb.WriteString("(set-logic ALL)\n(set-option :produce-models true)\n")
	}
	for _, lvl := range s.text {
		for _, l := range lvl {
			sb.WriteString(l)
			sb.WriteByte('\n')
		}
	}
	sb.WriteString("(check-sat)\n")
	names := make([]string, 0, len(s.decl))
	for n := range s.decl {
		names = append(names, n)
	}
	sort.Strings(names)
	if len(names) > 0 {
		sb.WriteString("(get-value (" + strings.Join(names, " ") + "))\n")
	}
	var cmd *exec.Cmd
	if solver == "cvc5" {
		cmd = exec.Command("cvc5", "--lang=smt2", "--tlimit=30000")
	} else {
		cmd = exec.Command(solver, "-in", "-T:30")
	}
	cmd.Stdin = strings.NewReader(sb.String())
	out, _ := cmd.CombinedOutput()
	s.lastOneShot = sb.String() + "; answer:\n; " + strings.ReplaceAll(string(out), "\n", "\n; ")
	txt := string(out)
	first := strings.TrimSpace(txt)
	if i := strings.IndexByte(first, '\n'); i >= 0 {
		first = first[:i]
	}
	switch strings.TrimSpace(first) {
	case "unsat":
		// the verdict is the first line, so no error line precedes it (an error about an
		// assertion would); what follows is only get-value complaining that there is no model
		return Unsat
	case "sat":
		rest := txt[strings.Index(txt, "sat")+3:]
		if strings.Contains(rest, "(error") {
			return Unknown
		}
		toks := tokenize(rest)
		m := map[string]*big.Int{}
		pos := 0
		if len(toks) > 0 && toks[0] == "(" {
			pos = 1
			for pos < len(toks) && toks[pos] == "(" {
				pos++
				name := toks[pos]
				pos++
				v, err := parseValue(toks, &pos)
				if err != nil || pos >= len(toks) || toks[pos] != ")" {
					return Unknown
				}
				pos++
				m[name] = v
			}
		}
		s.fbModel = m
		return Sat
	}
	return Unknown
}

// Model returns values for every declared variable. Call directly after a Sat.
func (s *Solver) Model() (map[string]*big.Int, error) {
	if s.fbModel != nil {
		return s.fbModel, nil
	}
	names := make([]string, 0, len(s.decl))
	for n := range s.decl {
		names = append(names, n)
	}
	sort.Strings(names)
	m := map[string]*big.Int{}
	if len(names) == 0 {
		return m, nil
	}
	s.send("(get-value (" + strings.Join(names, " ") + "))")
	s.in.Flush()
	var sb strings.Builder
	depth := 0
	started := false
	for {
		line, err := s.out.ReadString('\n')
		if err != nil {
			return nil, err
		}
		if strings.HasPrefix(strings.TrimSpace(line), "(error") && !started {
			return nil, fmt.Errorf("get-value: %s", line)
		}
		sb.WriteString(line)
		for _, c := range line {
			if c == '(' {
				depth++
				started = true
			} else if c == ')' {
				depth--
			}
		}
		if started && depth <= 0 {
			break
		}
	}
	toks := tokenize(sb.String())
	// ((name value) (name value) ...)
	pos := 0
	expect := func(tok string) error {
		if pos >= len(toks) || toks[pos] != tok {
			return fmt.Errorf("model parse: expected %q at %d in %v", tok, pos, toks)
		}
		pos++
		return nil
	}
	if err := expect("("); err != nil {
		return nil, err
	}
	for pos < len(toks) && toks[pos] == "(" {
		pos++
		name := toks[pos]
		pos++
		v, err := parseValue(toks, &pos)
		if err != nil {
			return nil, err
		}
		if err := expect(")"); err != nil {
			return nil, err
		}
		m[name] = v
	}
	return m, nil
}

func tokenize(s string) []string {
	var toks []string
	cur := strings.Builder{}
	flush := func() {
		if cur.Len() > 0 {
			toks = append(toks, cur.String())
			cur.Reset()
		}
	}
	for _, c := range s {
		switch c {
		case '(', ')':
			flush()
			toks = append(toks, string(c))
		case ' ', '\n', '\t', '\r':
			flush()
		default:
			cur.WriteRune(c)
		}
	}
	flush()
	return toks
}

func parseValue(toks []string, pos *int) (*big.Int, error) {
	if *pos >= len(toks) {
		return nil, fmt.Errorf("model parse: eof")
	}
	t := toks[*pos]
	*pos++
	switch t {
	case "true":
		return big.NewInt(1), nil
	case "false":
		return big.NewInt(0), nil
	case "(":
		// (- N)
		if toks[*pos] == "-" {
			*pos++
			v, err := parseValue(toks, pos)
			if err != nil {
				return nil, err
			}
			if toks[*pos] != ")" {
				return nil, fmt.Errorf("model parse: expected ) after negation")
			}
			*pos++
			return new(big.Int).Neg(v), nil
		}
		return nil, fmt.Errorf("model parse: unexpected list starting with %q", toks[*pos])
	}
	v, ok := new(big.Int).SetString(t, 10)
	if !ok {
		return nil, fmt.Errorf("model parse: bad literal %q", t)
	}
	return v, nil
}

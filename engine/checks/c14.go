package checks

import (
	"fmt"
	"strings"

	"github.com/formancehq/numscript/zzverif/vm"
)

var parserFiles = []vm.HarnessFile{hf("internal/parser", "zz_verif_c13.go"), hf("internal/parser", "zz_verif_c14.go"), hf("internal/parser", "zz_verif_c15.go"), hf("internal/parser", "zz_verif_c15s.go")}

func utf8Layouts(maxChars int, maxBytes int) []string {
	var out []string
	var rec func(cur string, bytes int)
	rec = func(cur string, bytes int) {
		if len(cur) > 0 {
			out = append(out, cur)
		}
		if len(cur) == maxChars {
			return
		}
		for _, c := range []string{"1", "2", "3", "4"} {
			nb := bytes + int(c[0]-'0')
			if nb <= maxBytes {
				rec(cur+c, nb)
			}
		}
	}
	rec("", 0)
	return out
}

func init() {
	Register(&Check{
		ID: "C14", SelfTest: true, Z3TimeoutMs: 2000, Title: "the parser is total (conversion and diagnostic kernels)", PanicViolates: true,
		Files: parserFiles, LoadPkgs: []string{"internal/parser"}, InitPkgs: []string{"internal/parser"},
		Cases: func(tier string) []Case {
			var cases []Case
			for n := 1; n <= 21; n++ {
				for _, neg := range []string{"0", "1"} {
					cases = append(cases, Case{ID: fmt.Sprintf("number-literal neg=%s digits=%d", neg, n), Pkg: "internal/parser", Fn: "ZZC14Number", Args: []string{neg, fmt.Sprint(n)}, Tag: "number-literal"})
				}
			}
			maxI, maxF := 4, 4
			if tier == "thorough" {
				maxI, maxF = 22, 22
			}
			for i := 1; i <= maxI; i++ {
				for f := 0; f <= maxF; f++ {
					if i+f > 23 || (tier == "thorough" && i > 5 && f > 5 && (i*f)%4 != 0) {
						continue
					}
					cases = append(cases, Case{ID: fmt.Sprintf("percent-literal-total i=%d f=%d", i, f), Pkg: "internal/parser", Fn: "ZZC13Percent", Args: []string{fmt.Sprint(i), fmt.Sprint(f)}, Tag: "percent-literal"})
				}
			}
			for n := 1; n <= 4; n++ {
				for d := 1; d <= 4; d++ {
					// every spelling the RATIO token allows: a blank before the slash, after it, both, none
					for _, blanks := range []string{"11", "10", "01", "00"} {
						cases = append(cases, Case{ID: fmt.Sprintf("ratio-literal-total n=%d d=%d blanks=%s", n, d, blanks), Pkg: "internal/parser", Fn: "ZZC13Ratio", Args: []string{fmt.Sprint(n), fmt.Sprint(d), blanks}, Tag: "ratio-literal"})
					}
				}
			}
			lay := utf8Layouts(3, 6)
			if tier == "thorough" {
				lay = utf8Layouts(4, 8)
			}
			for _, l := range append([]string{"none"}, lay...) {
				cases = append(cases, Case{ID: "syntax-error token=" + l, Pkg: "internal/parser", Fn: "ZZC14SyntaxError", Args: []string{l}, Tag: "syntax-error"})
			}
			// sources of up to 4 lines with line lengths 0..3
			var shapes []string
			var rec func(cur []string)
			maxLines := 3
			if tier == "thorough" {
				maxLines = 4
			}
			rec = func(cur []string) {
				if len(cur) > 0 {
					shapes = append(shapes, strings.Join(cur, ","))
				}
				if len(cur) == maxLines {
					return
				}
				for _, n := range []string{"0", "1", "2", "3"} {
					rec(append(append([]string{}, cur...), n))
				}
			}
			rec(nil)
			toks := []string{"eof", "1", "11", "2", "12", "111"}
			for i, sh := range shapes {
				for j, tk := range toks {
					if tier != "thorough" && (i+j)%3 != 0 && tk != "eof" {
						continue
					}
					cases = append(cases, Case{ID: "show-error lines=" + sh + " token=" + tk, Pkg: "internal/parser", Fn: "ZZC14Show", Args: []string{sh, tk}, Tag: "show-error"})
				}
			}
			// by-product (direct execution, not a solver verdict over texts): the real parser on a corpus
			for _, t := range validTemplates {
				cases = append(cases, Case{ID: "parse valid " + strings.ReplaceAll(t, "\n", "\\n"), Pkg: "internal/parser", Fn: "ZZC14ParseText", Args: []string{t, "1"}, Tag: "corpus-parse (native parser, by-product)"})
			}
			// scripts far longer than any in the suite are still valid scripts
			for _, n := range []int{70, 130, 400} {
				t := longProgram(n).text
				cases = append(cases, Case{ID: fmt.Sprintf("parse valid %d statements", n), Pkg: "internal/parser", Fn: "ZZC14ParseText", Args: []string{t, "1"}, Tag: "corpus-parse (native parser, by-product)"})
			}
			// a backslash is an ordinary character of a string unless it is followed by a quote that is not the last one
			for _, t := range []string{"set_tx_meta(\"k\", \"a\\\")", "set_tx_meta(\"dir\", \"C:\\dir\\\")", "set_account_meta(@b, \"sep\", \"\\\")", "set_tx_meta(\"k\", \"a\\\\\")\nset_tx_meta(\"j\", \"tab\\there\")",
				"set_tx_meta(\"q\", \"say \\\"hi\\\"\")"} {
				cases = append(cases, Case{ID: "parse valid " + strings.ReplaceAll(t, "\n", "\\n"), Pkg: "internal/parser", Fn: "ZZC14ParseText", Args: []string{t, "1"}, Tag: "corpus-parse (native parser, by-product)"})
			}
			invalid := []string{"send", "send [USD 1] (", "vars {", "send [USD 1] ( source = @a destination = )", "} } }", "send [USD 1] ( source = @a destination = @b ) )", "set_tx_meta(", "vars { number }", "@", "$", "[USD", "send [USD *] ( source = destination = @b )", "é", "send [USD 1] ( source = @a\ndestination = @b", "\"unterminated"}
			// non-ASCII text on the line where the input ends too early; input ending too early right after a newline
			invalid = append(invalid, "set_tx_meta(\"clé\", \"é\"", "vars {\n  \"déjà vu\"\n}\nsend [USD 1] (\n source = @a\n destination = @b\n)", "send [USD 1] (\n  source = @a\n  destination = @b\n", "save [USD 1] from\n", "vars {\n  account $a\n",
				"set_tx_meta(\"日本\", \n", "send [USD 1] (\r\n  source = @é\r\n")
			// an error on the line whose index is 9, 99, 999 (the line number gains a digit on the next line) with lines after it
			for _, n := range []int{9, 10, 99, 100, 999, 1000} {
				invalid = append(invalid, strings.Repeat("\n", n)+") stray\nsend [USD 1] (\n source = @a\n destination = @b\n)\n")
			}
			v0 := validTemplates[0]
			invalid = append(invalid, ")"+v0, "#"+v0, "é "+v0, "=\n", ")", "#", v0+" )", v0+"\n#", "\n)"+v0, "]"+v0, "1"+v0)
			for _, t := range invalid {
				cases = append(cases, Case{ID: "parse invalid " + strings.ReplaceAll(t, "\n", "\\n"), Pkg: "internal/parser", Fn: "ZZC14ParseText", Args: []string{t, "0"}, Tag: "corpus-parse (native parser, by-product)"})
			}
			corpus := c18Texts(tier)
			corpus = append(corpus, "send [USD 123456789012345678] (source=@a destination=@b)", "send [USD -9223372036854775808] (source=@a destination=@b)", "send [USD 1] (source = {00000000000000000000001/3 from @a remaining from @b} destination=@c)",
				"send [USD 1] (source=@a destination={0.00000000000000000000000001% to @b remaining kept})", "send [USD 1] (source=@a destination={99999999999999999999999% to @b remaining kept})", "set_tx_meta(\"é\", \"日本語\")\n\n", "// comment only", "/* unterminated", "send [USD 1] (\r\n source = @a\r\n destination = @b\r\n)\r\n")
			for _, t := range corpus {
				cases = append(cases, Case{ID: "parse " + strings.ReplaceAll(t, "\n", "\\n"), Pkg: "internal/parser", Fn: "ZZC14ParseText", Args: []string{t, ""}, Tag: "corpus-parse (native parser, by-product)"})
			}
			return cases
		},
		Bounds: stdBounds(
			map[string]interface{}{"corpus_parse": "BY-PRODUCT, not a solver verdict over texts: the real parser runs natively on the C18 edit corpus, 13 valid and 15 invalid scripts and numeric edge cases; a native panic, a wrongly accepted/rejected script or an error located outside the text is reported with the text as replay", "number_literal": "optional '-', 1..21 symbolic digits", "percent_literal": "i,f <= 4 symbolic digits", "ratio_literal": "<= 4 x 4 symbolic digits with spaces", "syntax_error": "token of <= 3 characters / 6 bytes (every UTF-8 layout, symbolic bytes) or no token, any line >= 1 and column >= 0", "show_error": "sources of <= 3 lines with line lengths 0..3, error token anywhere or <EOF>"},
			map[string]interface{}{"number_literal": "1..21 digits", "percent_literal": "i+f <= 23", "syntax_error": "<= 4 characters / 8 bytes", "show_error": "<= 4 lines, every token placement"}),
		Assumptions: []string{
			"SCOPED CLAIM: only the conversion kernels (parseNumberLiteral, parsePercentageRatio, parseRatio), the error listener and the error renderer are decided; the ANTLR lexer/parser (termination, acceptance of valid scripts, rejection of invalid ones) is outside the encoding",
			"stub contract for ANTLR objects: 1-based lines, 0-based columns counted in code points, non-empty token text, <EOF> reported at the end of the last line",
		},
		Stubs:   []string{"antlr.Token / TerminalNode / ParserRuleContext replaced by harness structs exposing text, line, column, index", "strconv.Atoi executed from its own SSA", "strings.{Split Repeat TrimSpace TrimSuffix Replace}", "fmt.Sprintf"},
		Outside: []string{"the ANTLR lexer and parser, their error recovery and termination", "acceptance of every valid script / rejection of every invalid one", "texts longer than the bounds"},
	})
	Register(&Check{
		ID: "C15", SelfTest: true, Title: "ranges delimit exactly the text (range arithmetic)", PanicViolates: true,
		Files: parserFiles, LoadPkgs: []string{"internal/parser"}, InitPkgs: []string{"internal/parser"},
		Cases: func(tier string) []Case {
			var cases []Case
			lay := utf8Layouts(3, 6)
			if tier == "thorough" {
				lay = utf8Layouts(4, 10)
			}
			for _, l := range lay {
				cases = append(cases, Case{ID: "token-range " + l, Pkg: "internal/parser", Fn: "ZZC15TokenRange", Args: []string{l}, Tag: "token-range"})
			}
			small := utf8Layouts(2, 4)
			if tier == "thorough" {
				small = utf8Layouts(3, 6)
			}
			for i, a := range small {
				for j, b := range small {
					if tier != "thorough" && (i+j)%2 == 1 {
						continue
					}
					cases = append(cases, Case{ID: "construct-range same-line " + a + " " + b, Pkg: "internal/parser", Fn: "ZZC15CtxRange", Args: []string{a, b, "1"}, Tag: "construct-range"})
					cases = append(cases, Case{ID: "construct-range multi-line " + a + " " + b, Pkg: "internal/parser", Fn: "ZZC15CtxRange", Args: []string{a, b, "0"}, Tag: "construct-range"})
				}
			}
			cases = append(cases, Case{ID: "position-order", Pkg: "internal/parser", Fn: "ZZC15Order", Args: []string{""}, Tag: "position-order"})
			// by-product (direct execution of the real parser, not a solver verdict over texts)
			for i, p := range structurePrograms() {
				cases = append(cases, Case{ID: fmt.Sprintf("structure #%d %s", i, strings.ReplaceAll(p.text, "\n", " ")), Pkg: "internal/parser", Fn: "ZZC15Structure", Args: []string{p.text, p.sx}, Tag: "tree-structure (native parser, by-product)"})
				vs := layoutVariants(p.text)
				if tier != "thorough" {
					vs = []string{vs[5], vs[6], vs[(i%5)], vs[7]}
				}
				for j, v := range vs {
					cases = append(cases, Case{ID: fmt.Sprintf("layout #%d.%d", i, j), Pkg: "internal/parser", Fn: "ZZC15Layout", Args: []string{p.text, v}, Tag: "layout-invariance (native parser, by-product)"})
				}
			}
			// known finding: a block comment directly after an asset / number / ratio token
			for j, v := range []string{"send [EUR/*c*/10] (\n source = @a\n destination = @b\n)", "send [EUR 10/*c*/] (\n source = @a\n destination = @b\n)", "send [EUR 10] (\n source = @a\n destination = { 1/2/*c*/to @b remaining kept }\n)"} {
				plain := strings.ReplaceAll(v, "/*c*/", " ")
				cases = append(cases, Case{ID: fmt.Sprintf("layout comment-glued-to-token #%d", j), Pkg: "internal/parser", Fn: "ZZC15Layout", Args: []string{plain, v}, Tag: "layout-invariance (native parser, by-product)"})
			}
			return cases
		},
		Bounds: stdBounds(
			map[string]interface{}{"structure_and_layout": "BY-PRODUCT, not a solver verdict over texts: 24 generated scripts covering every grammar alternative (with the expected tree built alongside the text) parsed by the real parser; tree rendering, every node's range (text under the range, containment, sibling order) and 4 (thorough 8) whitespace/comment layouts each", "token_text": "<= 3 characters / 6 bytes, every UTF-8 layout, symbolic bytes", "positions": "any line >= 1, column >= 0 (up to 2^40)", "constructs": "first and last token of <= 2 characters each, same line or later line"},
			map[string]interface{}{"token_text": "<= 4 characters / 10 bytes", "constructs": "tokens of <= 3 characters"}),
		Assumptions: []string{
			"SCOPED CLAIM: only the range arithmetic (tokenToRange, ctxToRange, Position.GtEq, Range.Contains) is decided; tree structure, literal values, associativity, layout and comment invariance depend on the ANTLR parse and are outside",
			"stub contract for ANTLR tokens: 1-based lines, 0-based columns counted in code points, a token does not span lines",
		},
		Stubs:   []string{"antlr.Token / ParserRuleContext replaced by harness structs", "unicode/utf8.RuneCountInString: exact decoder model forking on byte classes"},
		Outside: []string{"everything that depends on the ANTLR parse: structure, values, whitespace/comment invariance"},
	})
}

package checks

import (
	"strings"

	"github.com/formancehq/numscript/zzverif/vm"
)

// statically valid templates; variable names carry the type their positions require
var validTemplates = []string{
	"vars {\n monetary $mon1\n account $acc1\n account $acc2\n}\nsend $mon1 (\n source = $acc1\n destination = $acc2\n)",
	"vars {\n asset $ass1\n number $num1\n account $acc1\n}\nsend [$ass1 $num1] (\n source = @a allowing overdraft up to [$ass1 $num1]\n destination = $acc1\n)",
	"vars {\n monetary $mon1\n portion $por1\n}\nsend [USD 10] (\n source = { max $mon1 from @a @b }\n destination = { $por1 to @d remaining to @e }\n)",
	"vars {\n monetary $mon1\n asset $ass1\n}\nsend [$ass1 *] (\n source = { @a allowing overdraft up to $mon1 max $mon1 from @world }\n destination = @d\n)",
	"vars {\n string $str1\n account $acc1\n number $num1\n}\nset_tx_meta($str1, $num1)\nset_account_meta($acc1, $str1, $acc1)",
	"vars {\n account $acc1\n asset $ass1\n monetary $mon1 = balance($acc1, $ass1)\n string $str1\n number $num1 = meta($acc1, $str1)\n}\nsend $mon1 (\n source = @world\n destination = $acc1\n)\nset_tx_meta(\"k\", $num1)",
	"vars {\n monetary $mon1\n monetary $mon2\n number $num1\n}\nsend $mon1 + $mon2 (\n source = @world\n destination = @d\n)\nset_tx_meta(\"k\", $num1 - 1)",
	"vars {\n monetary $mon1\n account $acc1\n asset $ass1\n}\nsave $mon1 from $acc1\nsave [$ass1 *] from $acc1",
	"vars {\n portion $por1\n portion $por2\n}\nsend [USD 10] (\n source = { $por1 from @a $por2 from @b }\n destination = @d\n)",
	"vars {\n monetary $mon1\n}\nsend [USD 10] (\n source = @world\n destination = { max $mon1 to @d max [USD 2] kept remaining to @e }\n)",
	"send [USD *] (\n source = { @a @b allowing overdraft up to [USD 5] max [USD 3] from @c allowing unbounded overdraft }\n destination = { 1/3 to @d 2/3 to @e }\n)",
	"send [USD 9] (\n source = { 1/2 from @a 1/4 from @b remaining from @c }\n destination = { 50% to @d 25% to { max [USD 1] to @e remaining kept } remaining kept }\n)",
	"send [USD 10] (\n source = { 9223372036854775808/18446744073709551616 from @a 9223372036854775808/18446744073709551616 from @b }\n destination = { 1/18446744073709551616 to @d 18446744073709551615/18446744073709551616 to @e }\n)",
	"send [USD 10] (\n source = { 1/2 from @a 4611686018427387904/9223372036854775808 from @b }\n destination = { 9223372036854775807/18446744073709551615 to @d 9223372036854775808/18446744073709551615 to @e }\n)",
	"send [USD 10] (\n source = @world\n destination = { 50.00000000000000000000000000000000000000000000000000000000000000% to @d remaining to @e }\n)",
	"vars {\n account $acc1\n asset $ass1\n}\nsave [$ass1 *] from $acc1\nsend [USD 100] (\n source = { $acc1 allowing unbounded overdraft }\n destination = @d\n)\nsend [USD 5] (\n source = @world\n destination = @e\n)",
	"save [USD *] from @a\nset_tx_meta(\"k\", 1)\nsend [USD 5] (\n source = @world\n destination = @e\n)\nsend [USD *] (\n source = @a\n destination = @e\n)\nsend [USD 5] (\n source = @b allowing unbounded overdraft\n destination = @e\n)",
	"vars {\n portion $por1\n portion $por2\n}\nsend [USD 10] (\n source = { $por1 from @a $por2 from @b 1/2 from { 1/2 from @c 1/2 from @d } }\n destination = { $por1 to @d 50% to { 1/4 to @c 3/4 to @d } $por2 to @e }\n)",
	"vars {\n monetary $mon1 = balance(@fees, USD)\n account $acc1 = meta(@config, \"acc\")\n monetary $mon2 = balance($acc1, USD)\n}\nsend $mon1 (\n source = @world\n destination = $acc1\n)\nsend $mon2 (\n source = @world\n destination = @d\n)",
	// the static rules know types, not signs or sizes: negative and zero literals wherever a number or an amount may stand
	"vars {\n monetary $mon1\n number $num1\n}\nsend [USD 10] + [USD -3] (\n source = @world\n destination = @d\n)\nsend $mon1 - [USD -2] (\n source = @world\n destination = @d\n)\nsave [USD 5] + [USD -3] from @a\nset_tx_meta(\"k\", $num1 + -1)\nset_tx_meta(\"j\", -5)",
	"vars {\n monetary $mon1\n}\nsend [USD 0] (\n source = { max [USD -1] from @a @b allowing overdraft up to [USD -5] max $mon1 - [USD 7] from @c }\n destination = { max [USD 0] to @d max [USD -2] kept remaining to @e }\n)\nsave [USD -0] from @a",
	// valid by the static rules, but with warnings: none of them may be of error severity
	"vars {\n number $num1\n}\nsend [USD 1] (\n source = @a\n destination = @d\n)",
	"send [USD 1] (\n source = { 1/2 from @a 1/2 from @b remaining from @c }\n destination = { 100% to @d remaining kept }\n)",
	"send [USD 1] (\n source = { @a @a @world @b }\n destination = @d\n)",
	"send [USD 1] (\n source = @world allowing unbounded overdraft\n destination = @d\n)",
	"vars {\n portion $por1\n}\nsend [USD 1] (\n source = @world\n destination = { 1/2 to @d $por1 to @e }\n)",
	"vars {\n monetary $mon1 = overdraft(@a, USD)\n}\nsend [USD *] (\n source = max $mon1 from { 1/2 from @a 1/2 from @world }\n destination = @d\n)",
}

var nameTemplates = [][2]string{
	// + and - where any type may stand (nothing is required of the operands): every operand is still a use
	{"vars {\n number $x\n number $y\n}\nset_tx_meta(\"k\", $x + $y)\nset_account_meta(@a, \"j\", $y - 1 + $x)", "x,y,q"},
	{"vars {\n account $x\n monetary $z = balance($x, USD)\n account $w\n}\nsend $z (\n source = @world\n destination = $w\n)", "x,z,w"},
	{"vars {\n monetary $x\n account $y\n}\nsend $x (\n source = $y\n destination = $y\n)", "x,y,z"},
	{"vars {\n account $x\n asset $y\n monetary $z = balance($x, $y)\n}\nsend $z (\n source = @world\n destination = $x\n)", "x,y,z"},
	{"vars {\n monetary $x\n monetary $y\n}\nsend [USD 1] (\n source = { max $x from @a @b allowing overdraft up to $y }\n destination = { max $x to @d remaining kept }\n)", "x,y"},
	{"vars {\n portion $x\n string $y\n}\nsend [USD 1] (\n source = { $x from @a remaining from @b }\n destination = @d\n)\nset_tx_meta($y, $x)", "x,y,q"},
	{"vars {\n account $x\n monetary $y\n account $z\n}\nsend [USD 1] (\n source = { $x allowing unbounded overdraft max $y from $z }\n destination = @d\n)\nsend [USD 1] (\n source = { @world $z allowing overdraft up to $y }\n destination = $x\n)", "x,y,z"},
	{"vars {\n asset $x\n number $y\n}\nset_tx_meta(\"fee\", [$x $y])\nset_account_meta(@a, \"k\", [USD $y])", "x,y,q"},
	{"vars {\n number $x\n asset $y\n account $z\n}\nsave [$y $x] from $z\nset_account_meta($z, \"k\", $x + $x)", "x,y,z"},
}

func init() {
	Register(&Check{
		ID: "C16", Title: "the checker never cries wolf and is exact about names", PanicViolates: true,
		Files: []vm.HarnessFile{hf("internal/analysis", "zz_verif_c16.go")}, LoadPkgs: []string{"internal/analysis"}, InitPkgs: []string{"internal/analysis"},
		Cases: func(tier string) []Case {
			var cases []Case
			for _, t := range validTemplates {
				cases = append(cases, Case{ID: "valid " + strings.ReplaceAll(t, "\n", " "), Pkg: "internal/analysis", Fn: "ZZC16Valid", Args: []string{t}, Tag: "valid-scripts"})
			}
			nt := nameTemplates
			if tier != "thorough" {
				nt = nt[:8]
			}
			for _, t := range nt {
				cases = append(cases, Case{ID: "names " + strings.ReplaceAll(t[0], "\n", " "), Pkg: "internal/analysis", Fn: "ZZC16Names", Args: []string{t[0], t[1]}, Tag: "names"})
			}
			// one analysis after another in the same process
			warm := []string{
				"vars {\n portion $p\n}\nsend [USD 1] (\n source = @world\n destination = { 1/3 to @b $p to @c }\n)",
				"vars {\n portion $p\n}\nsend [USD 1] (\n source = { 10% from @a $p from @b }\n destination = @c\n)",
				"send [USD 1] (\n source = @world\n destination = { 100% to @b 100% to @c }\n)",
				"vars {\n portion $p\n portion $q\n}\nsend [USD 1] (\n source = @world\n destination = { 2/5 to @b $p to @c $q to @d }\n)",
				"send [USD 1] (\n source = { 1/4 from @a remaining from @b }\n destination = { 1/0 to @c",
			}
			after := []string{validTemplates[11], validTemplates[10], validTemplates[2], "vars {\n portion $por1\n}\nsend [USD 1] (\n source = @world\n destination = { 3/4 to @d $por1 to @e }\n)"}
			for _, w := range warm {
				for _, v := range after {
					cases = append(cases, Case{ID: "after " + strings.ReplaceAll(w, "\n", " ") + " ; " + strings.ReplaceAll(v, "\n", " "), Pkg: "internal/analysis", Fn: "ZZC16After", Args: []string{w, v}, Tag: "analysis-after-analysis"})
				}
			}
			return cases
		},
		Bounds: stdBounds(
			map[string]interface{}{"valid_templates": len(validTemplates), "literal_portions": "every non-negative numerator over the written denominators (symbolic)", "sequences": "5 first texts x 4 valid scripts analysed one after the other", "names": "6 templates; every declaration and use takes every name of a pool of 2-3 (all deletions / duplications / renamings), <= 3^8 assignments each"},
			map[string]interface{}{"valid_templates": len(validTemplates), "names": "7 templates"}),
		Assumptions: []string{"trees come from the real parser (native) on concrete template text; names are substituted in the imported tree", "big.Rat modelled exactly (numerator/denominator terms)",
			"a variable referenced only before its declaration: whether it is also 'unused' is left open (two-sided)"},
		Stubs:   []string{"parser.Parse (native)", "math/big.Rat {NewRat SetFrac Add Sub Cmp}"},
		Outside: []string{"scripts outside the template list"},
	})
}

package checks

import (
	"fmt"

	"github.com/formancehq/numscript/zzverif/vm"
)

func init() {
	Register(&Check{
		ID: "C13", SelfTest: true, Title: "values keep their exact meaning across text forms", PanicViolates: true,
		Files: append([]vm.HarnessFile{hf("internal/parser", "zz_verif_c13.go"), hf("internal/interpreter", "zz_verif_c07.go"),
			hf("internal/interpreter", "zz_verif_c06.go"), hf("internal/interpreter", "zz_verif_c13.go"), hf("", "zz_verif_c13.go")}, apiFiles...),
		LoadPkgs: []string{"", "internal/interpreter", "internal/parser"}, InitPkgs: apiInit,
		Cases: func(tier string) []Case {
			var cases []Case
			maxI, maxF := 3, 3
			if tier == "thorough" {
				maxI, maxF = 22, 22
			}
			for i := 1; i <= maxI; i++ {
				for f := 0; f <= maxF; f++ {
					if tier == "thorough" && i+f > 22 {
						continue
					}
					if tier == "thorough" && i > 4 && f > 4 && (i+f)%3 != 0 {
						continue
					}
					cases = append(cases, Case{ID: fmt.Sprintf("percent-literal i=%d f=%d", i, f), Pkg: "internal/parser", Fn: "ZZC13Percent", Args: []string{fmt.Sprint(i), fmt.Sprint(f)}, Tag: "percent-literal"})
					if i+f <= 6 || tier == "thorough" && (i <= 3 || f <= 3) && i+f <= 12 {
						cases = append(cases, Case{ID: fmt.Sprintf("percent-variable i=%d f=%d", i, f), Pkg: "internal/interpreter", Fn: "ZZC13PortionVarPercent", Args: []string{fmt.Sprint(i), fmt.Sprint(f)}, Tag: "percent-variable"})
					}
				}
			}
			if tier != "thorough" {
				// a few long digit strings in the quick tier too (64-bit overflow region)
				for _, p := range [][2]int{{1, 16}, {1, 17}, {1, 18}, {2, 20}, {19, 0}, {20, 1}, {3, 19}} {
					cases = append(cases, Case{ID: fmt.Sprintf("percent-literal i=%d f=%d", p[0], p[1]), Pkg: "internal/parser", Fn: "ZZC13Percent", Args: []string{fmt.Sprint(p[0]), fmt.Sprint(p[1])}, Tag: "percent-literal"})
				}
				cases = append(cases, Case{ID: "ratio-literal n=20 d=21 layout=00", Pkg: "internal/parser", Fn: "ZZC13Ratio", Args: []string{"20", "21", "00"}, Tag: "ratio-literal"})
				cases = append(cases, Case{ID: "percent-variable i=1 f=18", Pkg: "internal/interpreter", Fn: "ZZC13PortionVarPercent", Args: []string{"1", "18"}, Tag: "percent-variable"})
			}
			maxN := 3
			if tier == "thorough" {
				maxN = 21
			}
			for n := 1; n <= maxN; n++ {
				for d := 1; d <= maxN; d++ {
					if tier == "thorough" && n > 4 && d > 4 && (n+d)%5 != 0 {
						continue
					}
					for _, lay := range []string{"00", "10", "01", "11"} {
						if lay != "00" && n+d > 4 {
							continue
						}
						cases = append(cases, Case{ID: fmt.Sprintf("ratio-literal n=%d d=%d layout=%s", n, d, lay), Pkg: "internal/parser", Fn: "ZZC13Ratio", Args: []string{fmt.Sprint(n), fmt.Sprint(d), lay}, Tag: "ratio-literal"})
					}
				}
			}
			dens := []string{"1", "2", "3", "7", "10", "12", "100", "010", "08", "007", "0", "00"}
			if tier == "thorough" {
				dens = append(dens, "4", "5", "6", "8", "9", "16", "25", "64", "1000", "0100", "017", "09")
			}
			for _, den := range dens {
				for n := 1; n <= 3; n++ {
					cases = append(cases, Case{ID: fmt.Sprintf("ratio-variable n=%d den=%s", n, den), Pkg: "internal/interpreter", Fn: "ZZC13PortionVarRatio", Args: []string{fmt.Sprint(n), den, "00"}, Tag: "ratio-variable"})
				}
				cases = append(cases, Case{ID: fmt.Sprintf("ratio-variable n=1 den=%s spaced", den), Pkg: "internal/interpreter", Fn: "ZZC13PortionVarRatio", Args: []string{"1", den, "11"}, Tag: "ratio-variable"})
			}
			rt := [][2]string{{"number", "num"}, {"monetary", "mon:USD"}, {"monetary", "mon:EUR/2"}, {"monetary", "mon:US\"D"}, {"monetary", "mon:A\\B"}, {"monetary", "mon:R&D<1>"}, {"monetary", "mon:é"}, {"account", "acc:a"}, {"account", "acc:users:001"},
				{"asset", "asset:1"}, {"asset", "asset:2"}, {"asset", "asset:3"}, {"string", "str:0"}, {"string", "str:1"}, {"string", "str:2"}, {"string", "str:3"}}
			for _, p := range []string{"1/3", "0/1", "1/1", "50%", "12.5%", "1/2", "33/100", "7/8", "0.5%", "100%", "2/4", "010/100"} {
				rt = append(rt, [2]string{"portion", "portion:" + p})
			}
			if tier == "thorough" {
				for _, v := range portionVectors("quick") {
					_ = v
				}
				for d := 1; d <= 12; d++ {
					for n := 0; n <= d; n++ {
						rt = append(rt, [2]string{"portion", fmt.Sprintf("portion:%d/%d", n, d)})
					}
				}
				rt = append(rt, [2]string{"string", "str:4"}, [2]string{"asset", "asset:4"})
			}
			for _, vt := range [][3]string{{"number", "010", "10"}, {"number", "0100", "100"}, {"number", "-010", "-10"}, {"number", "+5", "5"}, {"number", "00", "0"}, {"number", "0x10", ""}, {"number", "0b11", ""}, {"number", "0o17", ""}, {"number", "1_000", ""}, {"number", "08", "8"},
				{"number", "1e3", ""}, {"number", " 5", ""}, {"monetary", "USD 010", "USD 10"}, {"monetary", "USD -08", "USD -8"}, {"monetary", "USD 0x1f", ""}, {"monetary", "USD 1_0", ""}, {"monetary", "EUR/2 0100", "EUR/2 100"}, {"monetary", "USD  5", ""}} {
				cases = append(cases, Case{ID: "variable-text " + vt[0] + " " + vt[1], Pkg: "", Fn: "ZZC13VarText", Args: []string{vt[0], vt[1], vt[2]}, Tag: "variable-text-base-ten"})
			}
			for _, r := range rt {
				cases = append(cases, Case{ID: "roundtrip " + r[0] + " " + r[1], Pkg: "", Fn: "ZZC13RoundTrip", Args: []string{r[0], r[1]}, Tag: "metadata-roundtrip"})
			}
			return cases
		},
		Bounds: stdBounds(
			map[string]interface{}{"percent_literal": "1..3 integral x 0..3 fractional digits, every digit symbolic", "ratio_literal": "1..3 x 1..3 digits, optional spaces", "portion_variables": "percent i+f<=6 symbolic digits; ratios with symbolic numerator (1..3 digits) over 12 concrete denominator texts incl. leading zeros and zero", "roundtrip": "numbers/monetaries: every integer; assets <=3 symbolic bytes of [A-Z][A-Z0-9/]*; strings <=3 arbitrary bytes; 2 accounts; 12 portion texts"},
			map[string]interface{}{"percent_literal": "i+f<=22 digits (uint64 overflow region inside)", "ratio_literal": "up to 21 x 21 digits", "portion_variables": "percent i+f<=12; 24 denominator texts", "roundtrip": "as quick + all n/d with d<=12, strings/assets of 4 bytes"}),
		Assumptions: []string{"big.Int String/SetString(.,10) are inverse (decimal atoms)", "math/big Rat.SetString modelled for the forms the repo produces (a/b base 0, decimal i.f); validated natively on every replayed model",
			"strconv.ParseUint / Atoi are executed from their own SSA", "portion round trips use concrete portion texts (the regexp matcher does not split decimal atoms)"},
		Stubs:   []string{"regexp symbolic matcher", "big.Int/Rat SetString models", "strings.{Split TrimSuffix TrimSpace Replace}", "fmt.Sprintf", "math.Pow10 (native on concrete exponent)"},
		Outside: []string{"digit strings longer than the bounds", "denominators of ratio variables are concrete per case", "JSON escaping of interpreter.String (encoding/json, not repo code)"},
	})
}

package checks

import (
	"strings"

	"github.com/formancehq/numscript/zzverif/vm"
)

// type-breaking edits of valid scripts
var brokenTemplates = []string{
	"send [USD 1+@a] (\n source = @world\n destination = @d\n)",
	"send [USD 1] + 2 (\n source = @world\n destination = @d\n)",
	"send [USD 1] - [USD 1] (\n source = @world\n destination = @d\n)",
	"vars {\n number $num1\n monetary $mon1\n}\nsend $mon1 + $num1 (\n source = @world\n destination = @d\n)",
	"vars {\n account $acc1\n}\nset_tx_meta(\"k\", $acc1 + 1)",
	"vars {\n number $num1\n}\nset_tx_meta(\"k\", 1 - $num1 + $num1)",
	"set_tx_meta(\"k\", \"a\" + \"b\")",
	"set_account_meta(@a, \"k\", [USD 1] + 1)",
	"send 10 (\n source = @world\n destination = @d\n)",
	"send [USD 10] (\n source = \"a\"\n destination = @d\n)",
	"send [USD 10] (\n source = @world\n destination = 42\n)",
	"send [USD 10] (\n source = max 5 from @a\n destination = @d\n)",
	"send [USD 10] (\n source = @a allowing overdraft up to 5\n destination = @d\n)",
	"send [USD 10] (\n source = @world\n destination = { max @x to @d remaining to @e }\n)",
	"send [@a 10] (\n source = @world\n destination = @d\n)",
	"send [USD \"x\"] (\n source = @world\n destination = @d\n)",
	"send [USD *] (\n source = { 1/2 from @a 1/2 from @b }\n destination = @d\n)",
	"send [USD *] (\n source = @world\n destination = @d\n)",
	"send [USD *] (\n source = { @a @b allowing unbounded overdraft }\n destination = @d\n)",
	"send [USD *] (\n source = max [USD 5] from { 1/2 from @a 1/2 from @world }\n destination = @d\n)",
	"send [USD *] (\n source = { @a max [USD 5] from @b allowing unbounded overdraft }\n destination = @d\n)",
	"send \"USD\" (\n source = @a\n destination = @d\n)",
	"save 10 from @a",
	"save [USD 10] from \"a\"",
	"save [USD *] from 5",
	"set_tx_meta(\"k\")",
	"set_tx_meta(1, 2)",
	"set_tx_meta(\"k\", 1, 2)",
	"set_account_meta(\"a\", \"k\", 1)",
	"set_account_meta(@a, @b, 1)",
	"set_account_meta(@a, \"k\")",
	"vars {\n account $acc1\n}\nsend [USD *] (\n source = $acc1 allowing unbounded overdraft\n destination = @d\n)",
	"vars {\n account $acc1\n}\nsend [USD *] (\n source = { @a $acc1 allowing unbounded overdraft }\n destination = @d\n)",
	"vars {\n account $acc1\n portion $por1\n}\nsend [USD *] (\n source = { $por1 from $acc1 remaining from @b }\n destination = @d\n)",
	"vars {\n account $acc1\n monetary $mon1\n}\nsend [USD *] (\n source = { max $mon1 from $acc1 allowing unbounded overdraft @b }\n destination = @d\n)",
	"vars {\n number $num1\n monetary $mon1\n}\nset_tx_meta(\"total\", $num1 + $mon1)",
	"vars {\n number $num1\n monetary $mon1\n}\nset_account_meta(@a, \"left\", $mon1 - $num1)",
	"vars {\n string $str1\n}\nset_tx_meta(\"k\", 1 + $str1)",
	"unknown_fn(1)",
	"balance(@a, USD)",
	"meta(@a, \"k\")",
	"vars {\n monetary $mon1 = set_tx_meta(\"k\", 1)\n}\nsend $mon1 (\n source = @world\n destination = @d\n)",
	"vars {\n monetary $mon1 = balance(@a)\n}\nsend $mon1 (\n source = @world\n destination = @d\n)",
	"vars {\n monetary $mon1 = balance(USD, @a)\n}\nsend $mon1 (\n source = @world\n destination = @d\n)",
	"vars {\n monetary $mon1 = balance(@a, USD, 1)\n}\nsend $mon1 (\n source = @world\n destination = @d\n)",
	"vars {\n number $num1 = balance(@a, USD)\n}\nset_tx_meta(\"k\", $num1)",
	"vars {\n monetary $mon1 = nope(@a, USD)\n}\nsend $mon1 (\n source = @world\n destination = @d\n)",
	"vars {\n account $acc1 = meta(@a, 5)\n}\nsend [USD 1] (\n source = $acc1\n destination = @d\n)",
	"vars {\n foo $x\n}\nset_tx_meta(\"k\", 1)",
	"send [USD 1] (\n source = $nope\n destination = @d\n)",
	"vars {\n monetary $mon1\n}\nsend $mon1 (\n source = @world\n destination = $mon1\n)",
	"vars {\n portion $por1\n}\nsend [USD 10] (\n source = @world\n destination = { $por1 to @d remaining to @e }\n)\nset_tx_meta(\"k\", $por1 + 1)",
	"vars {\n account $acc1 = meta(@a, \"acc\")\n monetary $mon1 = balance($acc1, USD)\n}\nsend $mon1 (\n source = $acc1\n destination = @d\n)",
	"vars {\n monetary $mon1 = balance($acc1, USD)\n account $acc1\n}\nsend $mon1 (\n source = $acc1\n destination = @d\n)",
	// a misplaced remaining clause together with another defect in the same allotment
	"vars {\n number $num1\n}\nsend [USD 10] (\n source = @world\n destination = { remaining to @d 1/2 to $num1 }\n)",
	"send [USD 10] (\n source = { remaining from @a 1/4 from $nobody }\n destination = @d\n)",
	"send [USD 10] (\n source = { remaining from max \"ten\" from @a 1/2 from @b }\n destination = @d\n)",
	"send [USD 10] (\n source = @world\n destination = { remaining to { max 5 to @d remaining kept } 1/2 to @e }\n)",
	"vars {\n account $acc1\n}\nsend [USD 10] (\n source = { 1/2 from @a remaining from @b 1/2 from $acc1 }\n destination = @d\n)\nset_tx_meta(\"k\", $acc1 + 1)",
	// a defect in a source listed after an unbounded one (never reached, still evaluated)
	"vars {\n monetary $mon1\n}\nsend [USD 1] (\n source = { @world $mon1 }\n destination = @d\n)",
	"send [USD 1] (\n source = { @a allowing unbounded overdraft $ghost }\n destination = @d\n)",
	"send [USD 1] (\n source = { @world max 42 from @b }\n destination = @d\n)",
	"vars {\n number $num1\n}\nsend [USD 1] (\n source = { max [USD 1] from @world @b allowing overdraft up to $num1 }\n destination = @d\n)",
	// a variable referenced inside its own origin
	"vars {\n account $acc1 = meta($acc1, \"acc\")\n}\nsend [USD 1] (\n source = @world\n destination = $acc1\n)",
	"vars {\n asset $ass1\n monetary $mon1 = balance(@a, $ass1)\n monetary $mon2 = balance(@a, $mon2)\n}\nsend $mon1 (\n source = @world\n destination = @d\n)\nsend $mon2 (\n source = @world\n destination = @d\n)",
	"vars {\n account $acc1\n account $acc2 = meta($acc1, \"acc\")\n account $acc3 = meta($acc3, \"acc\")\n}\nsend [USD 1] (\n source = $acc2\n destination = $acc3\n)",
}

func init() {
	Register(&Check{
		ID: "C17", Title: "a clean static check means no static-class failure at run time", PanicViolates: false,
		Files: []vm.HarnessFile{hf("internal/interpreter", "zz_verif_c07.go"), hf("internal/interpreter", "zz_verif_c06.go"), hf("internal/interpreter", "zz_verif_c17.go")},
		LoadPkgs: []string{"internal/interpreter"}, InitPkgs: []string{"internal/interpreter"},
		Cases: func(tier string) []Case {
			var cases []Case
			for _, t := range validTemplates {
				// two declarations may deviate from the template's types (the thorough bound costs seconds here)
				devs := []string{"0", "1", "2"}
				for _, d := range devs {
					cases = append(cases, Case{ID: "types dev=" + d + " " + strings.ReplaceAll(t, "\n", " "), Pkg: "internal/interpreter", Fn: "ZZC17", Args: []string{t, d}, Tag: "declared-types"})
				}
			}
			for _, t := range brokenTemplates {
				cases = append(cases, Case{ID: "edited " + strings.ReplaceAll(t, "\n", " "), Pkg: "internal/interpreter", Fn: "ZZC17", Args: []string{t, "0"}, Tag: "type-breaking-edits"})
				if strings.Contains(t, "vars {") {
					cases = append(cases, Case{ID: "edited dev=1 " + strings.ReplaceAll(t, "\n", " "), Pkg: "internal/interpreter", Fn: "ZZC17", Args: []string{t, "1"}, Tag: "type-breaking-edits"})
				}
			}
			return cases
		},
		Bounds: stdBounds(
			map[string]interface{}{"templates": "13 valid + 65 edited scripts", "declared_types": "at most two declarations deviate from the required type (all pairs, all 36 type pairs)", "values": "numbers and monetary amounts: every integer; other types: one value each; balances symbolic"},
			map[string]interface{}{"templates": "13 valid + 61 edited scripts", "declared_types": "at most two declarations deviate (all pairs, all 36 type pairs)"}),
		Assumptions: []string{"variable values are well-typed for the declared types", "metadata used by meta() origins holds well-formed values under keys k, m, acc, p, s, as", "the experimental overdraft flag is on"},
		Stubs:       apiStubs, Outside: []string{"scripts outside the template lists", "more than two mis-declared variables at once"},
	})
}

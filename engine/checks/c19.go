package checks

import (
	"fmt"

	"github.com/formancehq/numscript/zzverif/vm"
)

func init() {
	Register(&Check{
		ID: "C19", Title: "the language server answers from the latest text of the right document", PanicViolates: true,
		Files:       []vm.HarnessFile{hf("internal/analysis", "zz_verif_c16.go"), hf("internal/lsp", "zz_verif_c19.go")},
		LoadPkgs:    []string{"internal/lsp", "internal/analysis"},
		InitPkgs:    []string{"internal/lsp"},
		RecordStubs: []string{vm.RepoModule + "/internal/lsp.SendNotification"},
		Cases: func(tier string) []Case {
			var cases []Case
			methods := []string{"didOpen", "didChange1", "didChange2", "didChange0", "hover", "definition", "documentSymbol", "other"}
			for p1 := 0; p1 <= 3; p1++ {
				for p2 := 0; p2 <= 3; p2++ {
					pre := fmt.Sprintf("%d%d", p1, p2)
					for _, m := range methods {
						for u := 0; u < 3; u++ {
							texts := [][2]int{{0, 0}}
							switch m {
							case "didOpen", "didChange1":
								texts = [][2]int{{0, 0}, {1, 0}, {2, 0}}
							case "didChange2":
								texts = [][2]int{{0, 1}, {1, 2}, {2, 0}, {1, 1}}
								if tier == "thorough" {
									texts = nil
									for a := 0; a < 3; a++ {
										for b := 0; b < 3; b++ {
											texts = append(texts, [2]int{a, b})
										}
									}
								}
							}
							for _, t := range texts {
								cases = append(cases, Case{ID: fmt.Sprintf("step pre=%s %s uri=%d text=%d,%d", pre, m, u, t[0], t[1]), Pkg: "internal/lsp", Fn: "ZZC19Step",
									Args: []string{pre, m, fmt.Sprint(u), fmt.Sprint(t[0]), fmt.Sprint(t[1])}, Tag: "one-step-from-any-invariant-state"})
							}
						}
					}
				}
			}
			for t := 0; t < 9; t++ {
				cases = append(cases, Case{ID: fmt.Sprintf("navigation text=%d", t), Pkg: "internal/lsp", Fn: "ZZC19Nav", Args: []string{fmt.Sprint(t)}, Tag: "navigation"})
			}
			// version numbers chosen by the editor (any order)
			for _, abc := range [][3]string{{"0", "1", "2"}, {"1", "0", "1"}, {"2", "2", "0"}, {"0", "0", "1"}} {
				cases = append(cases, Case{ID: "versions " + abc[0] + abc[1] + abc[2], Pkg: "internal/lsp", Fn: "ZZC19Versions", Args: []string{abc[0], abc[1], abc[2]}, Tag: "version-numbers"})
			}
			return cases
		},
		Bounds: stdBounds(
			map[string]interface{}{"pre_states": "all 16 states over 2 URIs x {closed, 3 texts} satisfying the invariant", "requests": "8 kinds x 3 URIs x texts of a 3-text alphabet (0-2 content changes)", "cursor": "every line/character in [0, 2^31] (symbolic)", "histories": "any length, by one inductive step from an arbitrary invariant state"},
			map[string]interface{}{"pre_states": "all 16", "requests": "8 kinds x 3 URIs x all text pairs", "cursor": "symbolic"}),
		Assumptions: []string{
			"inductive invariant: every stored document is (latest text, CheckSource(latest text)); it holds initially (no document) and is asserted after the step",
			"json.Marshal/Unmarshal are value-carrying stubs (same Go type on both sides); message framing and the stdio loop are outside",
			"SendNotification is replaced by a recording stub in the VM; natively the harness decodes the frames written to stdout",
			"a cursor exactly at the end position of a token is left open (the implementation's containment is end-inclusive)",
		},
		Stubs:   []string{"encoding/json.Marshal/Unmarshal (value-carrying)", "lsp.SendNotification (recorded)", "parser.Parse (native)"},
		Outside: []string{"message framing (MessageBuffer, encodeMessage), RunServer loop", "texts outside the 3-text alphabet"},
	})
}

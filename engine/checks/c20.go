package checks

import (
	"strings"

	"github.com/formancehq/numscript/zzverif/vm"
)

func init() {
	Register(&Check{
		ID: "C20", Title: "the CLI reports what the library computes (command functions)", PanicViolates: true,
		Files:    []vm.HarnessFile{hf("internal/cmd", "zz_verif_c20.go")},
		LoadPkgs: []string{"internal/cmd"}, InitPkgs: []string{"internal/interpreter", "internal/analysis", "internal/parser"},
		Cases: func(tier string) []Case {
			var cases []Case
			texts := c18Texts("quick")
			step := 2
			if tier == "thorough" {
				texts = c18Texts("thorough")
				step = 5
			}
			for i := 0; i < len(texts); i += step {
				t := texts[i]
				cases = append(cases, Case{ID: "check " + strings.ReplaceAll(t, "\n", "\\n"), Pkg: "internal/cmd", Fn: "ZZC20Check", Args: []string{t}, Tag: "check-command"})
			}
			for _, t := range append(append([]string{}, validTemplates...), "send [USD 1] (\n source = @world\n destination = @d\n)", "vars {\n number $unused\n}\nsend [USD 1] (\n source = @world\n destination = @d\n)",
				"send [USD 10] (\n  source = @world\n  destination = {\n    1/2 to @b\n    1/4 to @c\n  }\n)", "send [USD 10] (\n  source = {\n    1/2 from @a\n    3/4 from @b\n  }\n  destination = @c\n)\nset_tx_meta(\n  \"k\",\n  1,\n  2\n)") {
				cases = append(cases, Case{ID: "check " + strings.ReplaceAll(t, "\n", "\\n"), Pkg: "internal/cmd", Fn: "ZZC20Check", Args: []string{t}, Tag: "check-command"})
			}
			type rc struct{ script, spec, accounts, meta, flag string }
			runs := []rc{
				{"vars {\n monetary $m\n}\nsend $m (\n source = { @a @b }\n destination = @d\n)", "m=mon:USD", "a,b", "", "0"},
				{"vars {\n monetary $m\n number $n\n}\nsend $m (\n source = @a allowing overdraft up to [USD 10]\n destination = { max [USD 5] to @d remaining kept }\n)\nset_tx_meta(\"k\", $n)\nset_account_meta(@a, \"j\", $m)", "m=mon:USD;n=num", "a", "", "0"},
				{"send [USD *] (\n source = @a\n destination = { 1/3 to @d 2/3 to @e }\n)", "", "a", "", "0"},
				{"vars {\n account $x = meta(@a, \"k\")\n monetary $b = balance($x, USD)\n}\nsend $b (\n source = $x\n destination = @d\n)", "", "a,b", "a.k=b", "0"},
				{"vars {\n monetary $o = overdraft(@a, USD)\n}\nsend $o (\n source = @world\n destination = @a\n)", "", "a", "", "1"},
				{"vars {\n monetary $o = overdraft(@a, USD)\n}\nsend $o (\n source = @world\n destination = @a\n)", "", "a", "", "0"},
				{"vars {\n portion $p\n}\nsend [USD 99] (\n source = @world\n destination = { $p to @d remaining to @e }\n)", "p=text:1/3", "", "", "0"},
				{"vars {\n portion $p\n}\nsend [USD 99] (\n source = @world\n destination = { $p to @d remaining to @e }\n)", "p=text:101%", "", "", "0"},
				{"vars {\n string $s\n}\nset_tx_meta(\"rate\", \"2.5% of the total\")\nset_tx_meta(\"note\", $s)\nset_account_meta(@a, \"k\", \"100%d\")", "s=text:50%s off", "", "", "0"},
				{"send [USD 1] (\n source = @a\n", "", "a", "", "0"},
				{"set_tx_meta(\"k\", 1/0)", "", "", "", "0"},
				{"vars {\n number $n\n}\nset_tx_meta(\"big\", $n + $n)", "n=num", "", "", "0"},
				{"vars {\n number $n\n number $missing\n}\nset_tx_meta(\"k\", $n)", "n=num", "", "", "0"},
				{"vars {\n monetary $m\n}\nsend $m (\n source = @world\n destination = @d\n)", "m=text:USD 12x", "", "", "0"},
				{"vars {\n monetary $m\n}\nsend $m (\n source = @world\n destination = @d\n)", "m=mon:USD", "", "", "0"},
				{"nope(1)", "", "", "", "0"},
				{"vars {\n monetary $c\n}\nsend [USD 10] (\n source = max $c from @a\n destination = @d\n)", "c=mon:EUR", "a", "", "0"},
			}
			// one run per error class of the library (raw channel): exit status and message must follow
			errRuns := []rc{
				{"set_tx_meta(42, 1)", "", "", "", "0"},
				{"set_tx_meta(\"k\", $nope)", "", "", "", "0"},
				{"set_tx_meta(\"k\")", "", "", "", "0"},
				{"vars {\n foo $n\n}\nset_tx_meta(\"k\", 1)", "n=text:1", "", "", "0"},
				{"send [USD 10] (\n source = @world\n destination = { 1/2 to @d 1/3 to @e }\n)", "", "", "", "0"},
				{"send [USD *] (\n source = @world\n destination = @d\n)", "", "", "", "0"},
				{"send [USD *] (\n source = { 1/2 from @a 1/2 from @b }\n destination = @d\n)", "", "a,b", "", "0"},
				{"vars {\n account $x = meta(@a, \"k\")\n}\nsend [USD 1] (\n source = $x\n destination = @d\n)", "", "a", "", "0"},
				{"vars {\n account $x\n}\nsend [USD 1] (\n source = @world\n destination = $x\n)", "x=text:not an account", "", "", "0"},
				{"vars {\n number $n\n}\nset_tx_meta(\"k\", $n)", "n=text:12abc", "", "", "0"},
				{"vars {\n monetary $m = balance(@a, USD)\n}\nsend $m (\n source = @world\n destination = @d\n)", "", "a", "", "0"},
				{"nope(1)", "", "", "", "0"},
			}
			for _, r := range errRuns {
				cases = append(cases, Case{ID: "run raw " + strings.ReplaceAll(r.script, "\n", " ") + " flag=" + r.flag, Pkg: "internal/cmd", Fn: "ZZC20Run",
					Args: []string{"raw", r.script, r.spec, r.accounts, r.meta, r.flag}, Tag: "run-command/error-classes"})
			}
			for ri, r := range runs {
				chans := []string{"raw", "stdin", "files"}
				if ri >= 0 { // every script through every channel combination in both tiers
					chans = append(chans, "path+stdin", "files+stdin-vars", "raw+files", "path+raw")
				}
				for _, ch := range chans {
					cases = append(cases, Case{ID: "run " + ch + " " + strings.ReplaceAll(r.script, "\n", " ") + " flag=" + r.flag, Pkg: "internal/cmd", Fn: "ZZC20Run",
						Args: []string{ch, r.script, r.spec, r.accounts, r.meta, r.flag}, Tag: "run-command/" + ch})
				}
			}
			return cases
		},
		Bounds: stdBounds(
			map[string]interface{}{"check": "every 2nd text of the C18 quick corpus + 15 valid / warning-only scripts", "run": "13 scripts x 7 channel combinations + 12 scripts failing with one error class each (formerly: 4 of them also through 4 mixed channels: script path + stdin, files + variables on stdin, raw + files, path + raw), JSON output; balances, numbers and monetary amounts symbolic (beyond 2^64 included)"},
			map[string]interface{}{"check": "every 5th text of the C18 thorough corpus", "run": "15 scripts x 7 channels"}),
		Assumptions: []string{
			"SCOPED CLAIM: the command functions check() and run() are executed, not the process: cobra flag parsing, main()'s recover/sentry wrapper and the real exit status of the binary are outside",
			"environment stubs in the VM: os.ReadFile on a virtual file system, os.Stdin/Stdout/Stderr as recorded streams, os.Exit as an observed event, json.Marshal/Unmarshal value-carrying; natively the harness uses real files, a real stdin and a child process",
			"every channel (pure or mixed) is given the same (script, variables, balances, metadata), each document carrying its part",
		},
		Stubs:   []string{"os.{ReadFile Exit Stdin Stdout Stderr}", "fmt.{Print Printf Println}", "encoding/json.{Marshal MarshalIndent Unmarshal}", "io.ReadAll", "sort.Slice (real algorithm, comparator run in the VM)"},
		Outside: []string{"process start, cobra, main()", "pretty output format", "JSON text encoding itself (encoding/json)"},
	})
}

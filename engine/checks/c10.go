package checks

import "strings"

func c10Case(tag string, vars []string, stmts []string, extra map[string][2]string, meta, flags string) Case {
	script, spec := instantiate(stmts, "USD", extra)
	if len(vars) > 0 {
		decl := strings.Join(vars, "\n  ")
		if strings.HasPrefix(script, "vars {\n") {
			script = "vars {\n  " + decl + "\n" + strings.TrimPrefix(script, "vars {\n")
		} else {
			script = "vars {\n  " + decl + "\n}\n" + script
		}
	}
	return Case{ID: "C10 " + strings.ReplaceAll(script, "\n", " ") + " meta=" + meta + " flags=" + flags, Pkg: "", Fn: "ZZC10", Args: []string{script, spec, meta, flags}, Tag: tag}
}

func c10Cases(tier string) []Case {
	var cases []Case
	bal := func(v, acc, as string) string { return "monetary $" + v + " = balance(@" + acc + ", " + as + ")" }
	od := func(v, acc, as string) string { return "monetary $" + v + " = overdraft(@" + acc + ", " + as + ")" }
	flag := "experimental-overdraft-function"
	send := func(amt, src, dst string) string {
		return "send " + amt + " (\n  source = " + src + "\n  destination = " + dst + "\n)"
	}
	cases = append(cases,
		c10Case("balance-origin", []string{bal("m", "a", "USD")}, []string{send("$m", "{ @a @b }", "@d")}, nil, "", ""),
		c10Case("balance-origin", []string{bal("m", "c", "USD")}, []string{send("$m", "{ @a @b }", "@d")}, nil, "", ""),
		c10Case("balance-origin", []string{bal("m", "a", "USD")}, []string{send("$m", "@b", "@d")}, nil, "", ""),
		c10Case("balance-origin", []string{bal("m", "a", "EUR")}, []string{send("%N", "@a", "@d")}, nil, "", ""),
		c10Case("balance-origin x2", []string{bal("m", "a", "USD"), bal("o", "b", "USD")}, []string{send("$m", "@b", "@d"), send("$o", "@a", "@e")}, nil, "", ""),
		c10Case("balance-origin x2", []string{bal("m", "a", "USD"), bal("o", "a", "USD")}, []string{send("$m", "{ @a @b }", "@d")}, nil, "", ""),
		c10Case("no-origin", nil, []string{send("%N", "{ @a @b }", "@d")}, nil, "", ""),
		c10Case("no-origin", nil, []string{sendAll("USD", "{ @a @b allowing overdraft up to %K }", "@d")}, nil, "", ""),
		c10Case("no-origin", nil, []string{send("%N", "{ @a allowing unbounded overdraft @b }", "@d")}, nil, "", ""),
		c10Case("no-origin", nil, []string{send("%N", "{ @world @b }", "@d")}, nil, "", ""),
		c10Case("save", nil, []string{"save %N from @a", send("%N", "@a", "@d")}, nil, "", ""),
		c10Case("save", []string{bal("m", "b", "USD")}, []string{"save $m from @a", send("%N", "{ @a @b }", "@d")}, nil, "", ""),
		c10Case("save", nil, []string{"save [USD *] from @c", send("%N", "@a", "@c")}, nil, "", ""),
		c10Case("overdraft-origin", []string{od("o", "a", "USD")}, []string{send("$o", "@world", "@a")}, nil, "", flag),
		c10Case("overdraft-origin", []string{od("o", "a", "USD")}, []string{send("%N", "{ @a allowing overdraft up to $o @b }", "@d")}, nil, "", flag),
		c10Case("overdraft-origin", []string{od("o", "a", "USD")}, []string{send("$o", "@b", "@a")}, nil, "", ""),
		c10Case("meta-origin", []string{`account $x = meta(@a, "k")`}, []string{send("%N", "{ $x @b }", "@d")}, nil, "a.k=b", ""),
		c10Case("meta-origin", []string{`account $x = meta(@a, "k")`}, []string{send("%N", "{ $x @b }", "@d")}, nil, "a.k=c", ""),
		c10Case("meta-origin", []string{`account $x = meta(@a, "k")`, bal("m", "b", "USD")}, []string{send("$m", "$x", "@d")}, nil, "a.k=c", ""),
		c10Case("meta-origin", []string{`account $x = meta(@a, "missing")`}, []string{send("%N", "$x", "@d")}, nil, "a.k=c", ""),
		c10Case("meta-origin", []string{`monetary $x = meta(@a, "k")`}, []string{send("$x", "@b", "@d")}, nil, "a.k=USD 12", ""),
		c10Case("meta-origin", []string{`account $x = meta(@zz, "k")`}, []string{send("%N", "$x", "@d")}, nil, "a.k=c", ""),
		c10Case("portion-variable", nil, []string{send("%N", "{ $p from @a remaining from @b }", "{ $q to @d remaining kept }")}, map[string][2]string{"p": {"portion", "portion:1/3"}, "q": {"portion", "portion:1/4"}}, "", ""),
		c10Case("portion-variable", nil, []string{send("%N", "{ $p from @a 1/3 from @b remaining from @c }", "@d")}, map[string][2]string{"p": {"portion", "portion:0/1"}}, "", ""),
		c10Case("portion-variable", nil, []string{send("%N", "{ 0% from @a 1/3 from @b remaining from @c }", "{ 0/1 to @d $q to @e remaining to @f }")}, map[string][2]string{"q": {"portion", "portion:1/3"}}, "", ""),
		c10Case("world-bounded-overdraft", nil, []string{send("%N", "{ @a @world allowing overdraft up to %K }", "@d")}, nil, "", ""),
		c10Case("world-bounded-overdraft", nil, []string{sendAll("USD", "{ @a @world allowing overdraft up to %K }", "@d")}, nil, "", ""),
		c10Case("two-assets-no-origin", nil, []string{"send [EUR 4] (\n  source = { @a allowing overdraft up to [EUR 5] @world }\n  destination = @d\n)", send("%N", "@a", "@e")}, nil, "", ""),
		c10Case("two-assets-no-origin", []string{bal("m", "a", "EUR")}, []string{send("%N", "@a", "@d"), send("$m", "@a", "@e"), send("%N", "{ @a @b }", "@d")}, nil, "", ""),
		c10Case("two-saves-two-assets", nil, []string{"save %N from @a", "save [EUR 1] from @a", send("%N", "@a", "@d")}, nil, "", ""),
		c10Case("unknown-account", nil, []string{send("%N", "@a", "@b"), "save %N from @p", send("%N", "{ @a @world }", "@e")}, map[string][2]string{"_omit": {"", "p"}}, "", ""),
		c10Case("unknown-account", nil, []string{send("%N", "@a", "@b"), sendAll("EUR", "@c", "@d"), send("%N", "@a", "@e")}, map[string][2]string{"_omit": {"", "c"}}, "", ""),
		c10Case("interned-amounts", nil, []string{send("%N", "@a", "@c"), send("%N", "@b", "@d")}, map[string][2]string{"_alias": {"", "b:a"}}, "", ""),
		c10Case("interned-amounts", nil, []string{"save %N from @a", sendAll("USD", "{ @b @a }", "@d")}, map[string][2]string{"_alias": {"", "b:a"}}, "", ""),
		// @world named where a balance is read: its balance is never requested, so it may not matter either
		c10Case("world-balance-read", []string{bal("w", "world", "USD")}, []string{send("$w", "{ @a @world }", "@d")}, nil, "", ""),
		c10Case("world-balance-read", []string{bal("m", "a", "USD"), bal("w", "world", "USD")}, []string{send("$m", "@a", "@d"), send("$w", "@b", "@e")}, nil, "", ""),
		c10Case("world-balance-read", []string{od("o", "world", "USD")}, []string{send("$o", "@a", "@d")}, nil, "", flag),
		c10Case("world-balance-read", nil, []string{"save %N from @world", send("%N", "{ @a @world }", "@d")}, nil, "", ""),
		c10Case("world-balance-read", nil, []string{send("%N", "@a", "@world"), "save [USD *] from @world", send("%N", "{ @b @world }", "@d")}, nil, "", ""),
		c10Case("capped-world-then-source", nil, []string{send("%N", "{ @a max %C from @world @b }", "@d")}, nil, "", ""),
		c10Case("capped-world-then-source", nil, []string{sendAll("USD", "{ @a max %C from @world @b }", "@d")}, nil, "", ""),
		c10Case("capped-world-then-source", nil, []string{send("%N", "{ max %C from { @world @a } @b }", "@d"), send("%N", "{ @b @a }", "@e")}, nil, "", ""),
		c10Case("self-posting", nil, []string{send("%N", "@a", "@a"), send("%N", "{ @a @b }", "@d")}, nil, "", ""),
		c10Case("unknown-account", nil, []string{sendAll("USD", "@p allowing overdraft up to %K", "@d")}, map[string][2]string{"_omit": {"", "p"}}, "", ""),
		c10Case("unknown-account", nil, []string{sendAll("USD", "{ @a @p allowing overdraft up to %K }", "@d"), send("%N", "@p allowing overdraft up to %K", "@e")}, map[string][2]string{"_omit": {"", "p"}}, "", ""),
		c10Case("capped-overdraft", nil, []string{send("%N", "{ max %C from @a allowing overdraft up to %K @b }", "@d")}, nil, "", ""),
		c10Case("capped-overdraft", nil, []string{sendAll("USD", "{ max %C from @a allowing overdraft up to %K @b }", "@d")}, nil, "", ""),
		c10Case("meta-origin", []string{`account $x = meta(@a, "k")`, `account $y = meta(@a, "j")`}, []string{send("%N", "{ $x $y }", "@d")}, nil, "a.k=b,a.j=c", ""),
		c10Case("account-variable", nil, []string{send("%N", "{ $s @b }", "@d")}, map[string][2]string{"s": {"account", "acc:a"}}, "", ""),
		c10Case("two-assets", []string{bal("m", "a", "EUR")}, []string{send("%N", "@a", "@d"), send("$m", "@a", "@e")}, nil, "", ""),
	)
	// names a store holds NEXT TO the ones asked for (other spellings of the same key or
	// account) must not matter, whatever it volunteers and whatever order its maps are walked in
	cases = append(cases,
		c10Case("near-miss-keys", []string{`account $x = meta(@a, "fee")`}, []string{send("%N", "{ $x @b }", "@d")}, nil, "a.Fee=b,a.FEE=c", ""),
		c10Case("near-miss-keys", []string{`account $x = meta(@a, "fee")`}, []string{send("%N", "{ $x @b }", "@d")}, nil, "a.fee=b,a.Fee=c,a.FEE=a,a.fee =c", ""),
		c10Case("near-miss-keys", []string{`monetary $x = meta(@a, "Fee")`}, []string{send("%N", "@b", "@d"), send("$x", "@world", "@e")}, nil, "a.fee=USD 3,a.FEE=USD 4,A.Fee=USD 5", ""),
	)
	// store independence over GENERATED source shapes (the generator of the C01-C04 families):
	// every two-leaf tree over @a, @b, @world with caps, bounded / unbounded overdraft and
	// allotments, plus allotments whose items are @world / unbounded accounts / lists
	// (an item that never needs a balance next to one that does)
	{
		o := srcOpts{world: true, unbounded: true, caps: true, allot: true}
		gen := srcTrees(2, 1, []string{"a", "b"}, o)
		if tier != "thorough" {
			gen = thin(gen, 10)
		}
		for _, first := range []string{"@world", "@a allowing unbounded overdraft", "{ @a @world }", "@a", "max %C from @world"} {
			seconds := []string{"{ @b @c }", "@b", "{ @b allowing overdraft up to %K @c }"}
			if tier != "thorough" {
				seconds = seconds[:1]
			}
			for _, second := range seconds {
				gen = append(gen, "{ 1/2 from "+first+" remaining from "+second+" }", "{ 1/3 from "+second+" 2/3 from "+first+" }")
			}
		}
		gen = dedupe(gen)
		for i, src := range gen {
			if tier == "thorough" || i%2 == 0 {
				cases = append(cases, c10Case("generated-source-shapes/fixed", nil, []string{send("%N", src, "@d")}, nil, "", ""))
			}
			if (tier == "thorough" || i%2 == 1) && !strings.Contains(src, "unbounded") && !strings.Contains(src, "@world") {
				cases = append(cases, c10Case("generated-source-shapes/send-all", nil, []string{sendAll("USD", src, "@d")}, nil, "", ""))
			} else if tier == "thorough" || i%2 == 1 {
				// followed by a second statement reading the same accounts again
				cases = append(cases, c10Case("generated-source-shapes/fixed+second-statement", nil, []string{send("%N", src, "@d"), send("%N", "{ @b @c @a }", "@e")}, nil, "", ""))
			}
		}
	}
	if tier == "thorough" {
		cases = append(cases,
			c10Case("balance-origin x3", []string{bal("m", "a", "USD"), bal("o", "b", "USD"), bal("p", "c", "USD")}, []string{send("$m", "{ @b @c }", "@d"), send("$o", "{ @a @c }", "@e"), send("$p", "@a", "@d")}, nil, "", ""),
			c10Case("balance-origin", []string{bal("m", "a", "USD")}, []string{send("$m", "{ 1/2 from @a 1/2 from @b }", "@d")}, nil, "", ""),
			c10Case("balance-origin", []string{bal("m", "a", "USD")}, []string{send("$m", "max %C from { @b @a }", "{ max %C to @a remaining to @d }")}, nil, "", ""),
			c10Case("balance-origin", []string{bal("m", "b", "USD")}, []string{sendAll("USD", "{ @a @b }", "@d"), send("$m", "@d", "@a")}, nil, "", ""),
			c10Case("overdraft-origin", []string{od("o", "a", "USD"), bal("m", "b", "USD")}, []string{send("$o", "@b", "@a"), send("$m", "@a allowing overdraft up to $o", "@d")}, nil, "", flag),
			c10Case("meta-origin", []string{`account $x = meta(@a, "k")`, `account $y = meta(@b, "k")`}, []string{send("%N", "{ $x $y }", "@d")}, nil, "a.k=b,b.k=a", ""),
			c10Case("save", []string{bal("m", "a", "USD")}, []string{"save $m from @a", send("%N", "@a allowing overdraft up to %K", "@d")}, nil, "", ""),
			c10Case("three-statements", []string{bal("m", "a", "USD")}, []string{send("%N", "@b", "@a"), "save %N from @a", send("$m", "{ @a @c }", "@d")}, nil, "", ""),
		)
	}
	return cases
}

func init() {
	Register(&Check{
		ID: "C10", Title: "results depend only on the balances asked for",
		Files: apiFiles, LoadPkgs: apiLoad, InitPkgs: apiInit,
		Cases: c10Cases,
		Bounds: stdBounds(
			map[string]interface{}{"templates": "50 scripts with balance()/overdraft()/meta() origins, saves, account variables, two assets", "stores": "exact, sparse, superset, static, interned (one number object shared by equal entries) over one symbolic truth table (<=4 accounts x <=2 assets + world)", "runs_per_path": 5},
			map[string]interface{}{"templates": "31 scripts", "stores": "exact, sparse, superset, static, interned", "runs_per_path": 5}),
		Assumptions: append([]string{"metadata values are concrete per case; balances are symbolic", "stores answering with nil maps are outside (covered for panic-freedom only in C12)"}, apiAssumptions...),
		Stubs:       append([]string{"harness stores zzStore{exact,sparse,superset,static} implement interpreter.Store"}, apiStubs...),
		Outside:     apiOutside,
	})
}

package checks

import (
	"fmt"
	"math/big"
	"strings"
)

// A tiny script builder producing, for every construct, both its text and the
// S-expression the harness expects the parsed tree to render to.
type node struct{ text, sx string }

func nVar(n string) node     { return node{"$" + n, "$" + n} }
func nAcc(n string) node     { return node{"@" + n, "@" + n} }
func nAsset(a string) node   { return node{a, a} }
func nNum(n int) node        { return node{fmt.Sprint(n), fmt.Sprint(n)} }
func nStr(raw string) node   { return node{"\"" + raw + "\"", "\"" + raw + "\""} }
func nRatio(n, d int) node   { return node{fmt.Sprintf("%d/%d", n, d), fmt.Sprintf("%d/%d", n, d)} }
func nRatioBig(n, d string) node { return node{n + "/" + d, n + "/" + d} }
func nRatioL(n, d int) node { return node{fmt.Sprintf("%d /%d", n, d), fmt.Sprintf("%d/%d", n, d)} }
func nRatioR(n, d int) node { return node{fmt.Sprintf("%d/ %d", n, d), fmt.Sprintf("%d/%d", n, d)} }
func nRatioSp(n, d int) node { return node{fmt.Sprintf("%d / %d", n, d), fmt.Sprintf("%d/%d", n, d)} }
func nPercent(txt string) node {
	body := strings.TrimSuffix(txt, "%")
	digits := strings.Replace(body, ".", "", 1)
	f := 0
	if i := strings.Index(body, "."); i >= 0 {
		f = len(body) - i - 1
	}
	num, _ := new(big.Int).SetString(digits, 10)
	den := new(big.Int).Exp(big.NewInt(10), big.NewInt(int64(2+f)), nil)
	return node{txt, num.String() + "/" + den.String()}
}
func nMon(asset, amt node) node { return node{"[" + asset.text + " " + amt.text + "]", "(mon " + asset.sx + " " + amt.sx + ")"} }
func nInfix(op string, l, r node) node {
	return node{l.text + " " + op + " " + r.text, "(" + op + " " + l.sx + " " + r.sx + ")"}
}

func sAcc(e node) node { return node{e.text, "(acc " + e.sx + ")"} }
func sOdUnbounded(e node) node {
	return node{e.text + " allowing unbounded overdraft", "(od " + e.sx + " unbounded)"}
}
func sOd(e, lim node) node {
	return node{e.text + " allowing overdraft up to " + lim.text, "(od " + e.sx + " " + lim.sx + ")"}
}
func sInorder(xs ...node) node {
	var t, s []string
	for _, x := range xs {
		t = append(t, x.text)
		s = append(s, x.sx)
	}
	return node{"{ " + strings.Join(t, " ") + " }", "(inorder " + strings.Join(s, " ") + ")"}
}
func sCap(c, from node) node { return node{"max " + c.text + " from " + from.text, "(cap " + c.sx + " " + from.sx + ")"} }
func sAllot(items ...[2]node) node {
	var t, s []string
	for _, it := range items {
		t = append(t, it[0].text+" from "+it[1].text)
		s = append(s, "("+it[0].sx+" "+it[1].sx+")")
	}
	return node{"{ " + strings.Join(t, " ") + " }", "(allot " + strings.Join(s, " ") + ")"}
}

var nRemaining = node{"remaining", "remaining"}
var kKept = node{"kept", "kept"}

func kTo(d node) node { return node{"to " + d.text, "(to " + d.sx + ")"} }
func dAcc(e node) node { return node{e.text, "(acc " + e.sx + ")"} }
func dInorder(rem node, clauses ...[2]node) node {
	var t, s []string
	for _, c := range clauses {
		t = append(t, "max "+c[0].text+" "+c[1].text)
		s = append(s, "("+c[0].sx+" "+c[1].sx+")")
	}
	t = append(t, "remaining "+rem.text)
	s = append(s, rem.sx)
	return node{"{ " + strings.Join(t, " ") + " }", "(inorder " + strings.Join(s, " ") + ")"}
}
func dAllot(items ...[2]node) node {
	var t, s []string
	for _, it := range items {
		t = append(t, it[0].text+" "+it[1].text)
		s = append(s, "("+it[0].sx+" "+it[1].sx+")")
	}
	return node{"{ " + strings.Join(t, " ") + " }", "(allot " + strings.Join(s, " ") + ")"}
}

func stSend(sent, src, dst node) node {
	return node{"send " + sent.text + " (\n  source = " + src.text + "\n  destination = " + dst.text + "\n)", "(send " + sent.sx + " " + src.sx + " " + dst.sx + ")"}
}
func sentLit(m node) node     { return node{m.text, "(lit " + m.sx + ")"} }
func sentAll(asset node) node { return node{"[" + asset.text + " *]", "(all " + asset.sx + ")"} }
func stSave(sent, acc node) node {
	return node{"save " + sent.text + " from " + acc.text, "(save " + sent.sx + " " + acc.sx + ")"}
}
func stCall(name string, args ...node) node {
	var t, s []string
	for _, a := range args {
		t = append(t, a.text)
		s = append(s, a.sx)
	}
	sx := "(call " + name
	if len(s) > 0 {
		sx += " " + strings.Join(s, " ")
	}
	return node{name + "(" + strings.Join(t, ", ") + ")", sx + ")"}
}

type decl struct {
	typ, name string
	origin    *node
}

func program(decls []decl, stmts ...node) node {
	text := ""
	sx := "(program (vars"
	if len(decls) > 0 {
		text = "vars {\n"
		for _, d := range decls {
			text += "  " + d.typ + " $" + d.name
			sx += " (decl " + d.typ + " " + d.name
			if d.origin != nil {
				text += " = " + d.origin.text
				sx += " " + d.origin.sx
			}
			text += "\n"
			sx += ")"
		}
		text += "}\n"
	}
	sx += ")"
	for _, s := range stmts {
		text += s.text + "\n"
		sx += " " + s.sx
	}
	return node{text, sx + ")"}
}

// longProgram: n statements, each one different, so that a statement lost, repeated or moved shows
func longProgram(n int) node {
	usd := nAsset("USD")
	var stmts []node
	for i := 0; i < n; i++ {
		switch i % 3 {
		case 0:
			stmts = append(stmts, stSend(sentLit(nMon(usd, nNum(i))), sAcc(nAcc("a")), dAcc(nAcc("d"))))
		case 1:
			stmts = append(stmts, stCall("set_tx_meta", nStr("k"), nNum(i)))
		default:
			stmts = append(stmts, stSave(sentLit(nMon(usd, nNum(i))), nAcc("a")))
		}
	}
	return program(nil, stmts...)
}

func structurePrograms() []node {
	usd := nAsset("USD")
	m := func(n int) node { return nMon(usd, nNum(n)) }
	bal := stCall("balance", nAcc("a"), nAsset("EUR/2"))
	meta := stCall("meta", nVar("acc"), nStr("key"))
	od := stCall("overdraft", nAcc("a:b:c"), usd)
	world := sAcc(nAcc("world"))
	d := dAcc(nAcc("d"))
	return []node{
		program(nil, stSend(sentLit(m(100)), sAcc(nAcc("a")), d)),
		program(nil, stSend(sentAll(usd), sAcc(nAcc("users:001")), dAcc(nAcc("bank_2")))),
		program([]decl{{"monetary", "m", nil}, {"account", "acc", nil}, {"asset", "as", nil}, {"number", "n", nil}, {"portion", "p", nil}, {"string", "s", nil}},
			stSend(sentLit(nVar("m")), sAcc(nVar("acc")), dAcc(nVar("acc"))), stSend(sentAll(nVar("as")), sAcc(nAcc("a")), d),
			stSend(sentLit(nMon(nVar("as"), nVar("n"))), world, dAllot([2]node{nVar("p"), kTo(d)}, [2]node{nRemaining, kKept})), stCall("set_tx_meta", nVar("s"), nVar("n"))),
		program([]decl{{"monetary", "b", &bal}, {"account", "acc", nil}, {"string", "v", &meta}, {"monetary", "o", &od}},
			stSend(sentLit(nVar("b")), sOd(nVar("acc"), nVar("o")), d), stCall("set_account_meta", nVar("acc"), nStr("k"), nVar("v"))),
		// sources: every alternative, nesting, which expression is the cap and which the address
		program(nil, stSend(sentLit(m(10)), sInorder(sAcc(nAcc("a")), sAcc(nAcc("b")), world), d)),
		program(nil, stSend(sentLit(m(10)), sCap(m(5), sAcc(nAcc("a"))), d)),
		program(nil, stSend(sentLit(m(10)), sCap(m(5), sInorder(sAcc(nAcc("a")), sCap(m(2), sAcc(nAcc("b"))))), d)),
		program(nil, stSend(sentLit(m(10)), sInorder(sOd(nAcc("a"), m(3)), sOdUnbounded(nAcc("b"))), d)),
		program(nil, stSend(sentLit(m(10)), sAllot([2]node{nRatio(1, 3), sAcc(nAcc("a"))}, [2]node{nPercent("12.5%"), sInorder(sAcc(nAcc("b")), sAcc(nAcc("c")))}, [2]node{nRemaining, world}), d)),
		program([]decl{{"account", "acc", nil}, {"monetary", "b", &bal}, {"account", "dest", nil}, {"number", "n", nil}, {"string", "v", &meta}, {"asset", "as", nil}}, stSend(sentLit(nVar("b")), sAcc(nVar("acc")), dAcc(nVar("dest")))),
		program([]decl{{"portion", "p", nil}}, stSend(sentLit(m(10)), sAllot([2]node{nVar("p"), sCap(m(1), sAcc(nAcc("a")))}, [2]node{nRemaining, sOd(nAcc("b"), m(2))}), d)),
		program(nil, stSend(sentLit(m(10)), sInorder(sInorder(sAcc(nAcc("a")), sAcc(nAcc("b"))), sInorder(sAcc(nAcc("c")))), d)),
		// destinations
		program(nil, stSend(sentLit(m(10)), world, dInorder(kTo(dAcc(nAcc("r"))), [2]node{m(1), kTo(dAcc(nAcc("x")))}, [2]node{m(2), kKept}, [2]node{m(3), kTo(dAcc(nAcc("y")))}))),
		program(nil, stSend(sentLit(m(10)), world, dInorder(kKept, [2]node{m(4), kTo(dInorder(kTo(dAcc(nAcc("i2"))), [2]node{m(1), kTo(dAcc(nAcc("i1")))}))}))),
		program(nil, stSend(sentLit(m(10)), world, dAllot([2]node{nRatio(1, 2), kTo(dAcc(nAcc("x")))}, [2]node{nPercent("25%"), kKept}, [2]node{nRatioSp(1, 4), kTo(dAllot([2]node{nPercent("50%"), kTo(dAcc(nAcc("y")))}, [2]node{nRemaining, kTo(dAcc(nAcc("z")))}))}))),
		program(nil, stSend(sentLit(m(10)), world, dAllot([2]node{nPercent("0.10%"), kTo(d)}, [2]node{nPercent("010%"), kTo(d)}, [2]node{nPercent("08.00%"), kKept}, [2]node{nRemaining, kTo(dInorder(kKept, [2]node{m(1), kTo(d)}))}))),
		// expressions: left-associative + and -, operands of every kind
		program(nil, stCall("set_tx_meta", nStr("k"), nInfix("-", nInfix("+", nNum(1), nNum(2)), nNum(3)))),
		program(nil, stCall("set_tx_meta", nStr("k"), nInfix("+", nInfix("-", nInfix("+", nNum(1), nNum(2)), nNum(3)), nNum(4)))),
		program([]decl{{"monetary", "m", nil}, {"number", "n", nil}}, stSend(sentLit(nInfix("+", nVar("m"), m(1))), world, d), stSend(sentLit(nMon(usd, nInfix("-", nVar("n"), nNum(1)))), world, d)),
		program(nil, stSend(sentLit(m(10)), sCap(nInfix("+", m(1), m(2)), sAcc(nAcc("a"))), dInorder(kTo(d), [2]node{nInfix("-", m(5), m(1)), kKept}))),
		// literals
		program(nil, stCall("set_tx_meta", nStr(""), nStr("with space and: punctuation!")), stCall("set_tx_meta", nStr("é"), nStr("日本語")), stCall("set_tx_meta", nStr("a\\\"b"), nStr("ends with quote\\\"")),
			stCall("set_tx_meta", nStr("\\\""), nStr("😀 astral 𝒳"))),
		program(nil, stCall("set_tx_meta", nStr("n"), nNum(-5)), stCall("set_tx_meta", nStr("n"), nNum(0)), stCall("set_tx_meta", nStr("n"), nNum(123456789012345678)), stCall("set_tx_meta", nStr("p"), nRatio(0, 1)),
			stCall("set_tx_meta", nStr("p"), nRatio(10, 100)), stCall("set_tx_meta", nStr("p"), nRatio(7, 7)), stCall("set_tx_meta", nStr("p"), nPercent("100%")), stCall("set_tx_meta", nStr("p"), nPercent("0%"))),
		// terms at and beyond the machine-word boundaries; strings ending with a backslash
		program(nil, stCall("set_tx_meta", nStr("p"), nRatioBig("9223372036854775807", "18446744073709551615")), stCall("set_tx_meta", nStr("p"), nRatioBig("9223372036854775808", "18446744073709551616")),
			stCall("set_tx_meta", nStr("p"), nRatioBig("18446744073709551615", "340282366920938463463374607431768211456")), stCall("set_tx_meta", nStr("p"), nRatioBig("4294967296", "9223372036854775808"))),
		program(nil, stCall("set_tx_meta", nStr("k"), nStr("C:\\dir\\"))),
		program(nil, stCall("set_tx_meta", nStr("p"), nRatioL(1, 25)), stCall("set_tx_meta", nStr("p"), nRatioR(3, 4)), stSend(sentLit(m(10)), world, dAllot([2]node{nRatioL(1, 4), kTo(dAcc(nAcc("x")))}, [2]node{nRatioR(3, 4), kKept}))),
		program(nil, stCall("set_account_meta", nAcc("a:b-c_d"), nStr("k"), nAsset("EUR/2")), stCall("set_account_meta", nAcc("x"), nStr("k"), nMon(nAsset("COIN"), nNum(3))), stCall("set_account_meta", nAcc("x"), nStr("k"), nAcc("y"))),
		// save
		program([]decl{{"monetary", "m", nil}, {"account", "acc", nil}}, stSave(sentLit(m(10)), nAcc("a")), stSave(sentAll(usd), nVar("acc")), stSave(sentLit(nVar("m")), nAcc("b"))),
		// statement order
		program(nil, stSend(sentLit(m(1)), sAcc(nAcc("a")), d), stCall("set_tx_meta", nStr("k"), nNum(1)), stSave(sentLit(m(2)), nAcc("a")), stSend(sentAll(usd), sAcc(nAcc("b")), d), stCall("set_tx_meta", nStr("j"), nNum(2))),
		// length: scripts far longer than any in the suite (every statement present, in order, with its ranges)
		longProgram(70), longProgram(130), longProgram(400),
	}
}

func mergesWithSlash(tok string) bool {
	for _, c := range tok {
		if !(c >= 'A' && c <= 'Z' || c >= '0' && c <= '9' || c == '/' || c == '%' || c == '.') {
			return false
		}
	}
	return tok != ""
}

// layoutVariants inserts whitespace, newlines and comments between tokens.
func layoutVariants(text string) []string {
	real := lexTokens(text)
	join := func(sep func(i int) string) string {
		var sb strings.Builder
		for i, t := range real {
			if i > 0 {
				sb.WriteString(sep(i))
			}
			sb.WriteString(t)
		}
		return sb.String()
	}
	seps := []string{" ", "\n", "\t", "  \n  ", " /* c */ ", "\n// line comment é\n", "\r\n", " /* multi\nline */ "}
	return []string{
		join(func(int) string { return " " }),
		join(func(int) string { return "\n" }),
		join(func(int) string { return "\t \n" }),
		join(func(int) string { return " /* c */ " }),
		join(func(int) string { return "\n// comment\n" }),
		join(func(i int) string { return seps[i%len(seps)] }),
		"// leading comment\n\n" + join(func(i int) string { return seps[(i*3+1)%len(seps)] }) + "\n/* trailing */\n",
		// block comments with nothing around them; after a token made of [A-Z0-9/] only (asset, number,
		// ratio) a blank comes first: there the '/' of the comment would be lexed into the token (known finding)
		join(func(i int) string {
			if mergesWithSlash(real[i-1]) {
				return " /*c*/"
			}
			return "/*c*/"
		}),
	}
}

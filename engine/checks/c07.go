package checks

import (
	"strings"

	"github.com/formancehq/numscript/zzverif/vm"
)

// canonical name strings of length n over a pool, up to renaming of the
// interchangeable names (restricted growth strings); fixed names (e.g. <kept>)
// are kept as they are.
func namePatterns(n int, free []string, fixed []string) []string {
	var out []string
	var rec func(cur []string, used int)
	rec = func(cur []string, used int) {
		if len(cur) == n {
			out = append(out, strings.Join(cur, ","))
			return
		}
		for i := 0; i <= used && i < len(free); i++ {
			nu := used
			if i == used {
				nu++
			}
			rec(append(append([]string{}, cur...), free[i]), nu)
		}
		for _, f := range fixed {
			rec(append(append([]string{}, cur...), f), used)
		}
	}
	rec(nil, 0)
	return out
}

func init() {
	Register(&Check{
		ID:       "C07",
		Title:    "first-come-first-served pairing, kept stays with earliest sources",
		Files:    append([]vm.HarnessFile{hf("internal/interpreter", "zz_verif_c07.go")}, apiFiles...),
		LoadPkgs: apiLoad,
		InitPkgs: []string{"", "internal/interpreter"},
		Cases: func(tier string) []Case {
			maxS, maxR := 3, 3
			if tier == "thorough" {
				maxS, maxR = 4, 5
			}
			var cases []Case
			for n := 1; n <= maxS; n++ {
				for m := 1; m <= maxR; m++ {
					for _, s := range namePatterns(n, []string{"a", "b", "c"}, nil) {
						for _, r := range namePatterns(m, []string{"d", "e", "a"}, []string{"<kept>"}) {
							shape := s + "|" + r
							cases = append(cases, Case{ID: "reconcile " + shape, Pkg: "internal/interpreter", Fn: "ZZC07Reconcile",
								Args: []string{shape}, Tag: "Reconcile-unit"})
						}
					}
				}
			}
			// names containing the separator ':' (two different pairs must never be confused)
			for _, shape := range []string{"x:y,x|z,y:z", "x,x:y|y:z,z", "x:y,x,x:y|z,y:z,z", "x:y,x|z,<kept>,y:z"} {
				cases = append(cases, Case{ID: "reconcile " + shape, Pkg: "internal/interpreter", Fn: "ZZC07Reconcile", Args: []string{shape}, Tag: "Reconcile-unit"})
			}
			// API tier: the same pairing seen through whole scripts - kept shares spanning several
			// sources, one cap variable on several clauses, and every variable used again afterwards
			capv := map[string][2]string{"cap": {"monetary", "mon:USD"}}
			var api []Case
			for _, d := range []string{"{ max $cap kept max $cap to @d remaining to @e }", "{ max $cap to @d max $cap kept remaining to @e }", "{ max $cap kept remaining to @d }",
				"{ max $cap to { max $cap to @a remaining kept } remaining to @d }", "{ 1/2 kept 1/2 to @d }", "{ max $cap to @d max $cap to @e max $cap kept remaining kept }"} {
				for _, src := range []string{"{ @a @b }", "{ @a @b @c }", "{ max $cap from @a @b }", "{ @a @world }", "{ max $cap from @a @b @a }"} {
					api = append(api, apiCase("C07", "api-kept-and-shared-caps", []string{sendFixed("USD", src, d)}, capv))
				}
				api = append(api, apiCase("C07", "api-kept-and-shared-caps", []string{sendAll("USD", "{ @a @b }", d)}, capv))
			}
			if tier != "thorough" {
				api = thinCases(api, 2)
			}
			// every destination shape of the generator (kept in every position, allotments, nested blocks) fed by several sources
			// the same account drawn twice with another account in between, two or three shares
			for _, d := range []string{"{ max %C to @d remaining to @e }", "{ 1/2 to @d 1/2 to @e }", "{ max %C to @d max %C kept remaining to @e }", "{ max %C to @d max %C to @e remaining to @d }"} {
				for _, src := range []string{"{ max %C from @a @b @a }", "{ @a allowing overdraft up to %K @b @a allowing overdraft up to %K }", "{ 1/3 from @a 1/3 from @b remaining from @a }"} {
					api = append(api, apiCase("C07", "api-repeated-source-around-another", []string{sendFixed("USD", src, d)}, nil))
				}
			}
			for _, d := range dstTrees(2, true, true, true) {
				api = append(api, apiCase("C07", "api-destinations-x-several-sources", []string{sendFixed("USD", "{ @a @b }", d)}, nil))
				if tier == "thorough" {
					api = append(api, apiCase("C07", "api-destinations-x-several-sources", []string{sendFixed("USD", "{ @a @b @c }", d)}, nil))
					api = append(api, apiCase("C07", "api-destinations-x-several-sources", []string{sendAll("USD", "{ @a @b }", d)}, nil))
				}
			}
			cases = append(cases, withObserved(api, 1)...)
			return cases
		},
		Bounds: map[string]map[string]interface{}{
			"quick":    {"senders": "1..3", "receivers": "1..3", "names": "all aliasing patterns over 3 names, <kept> in every position", "amounts": "unbounded positive integers, equal totals", "api": "12 of 30 scripts with kept shares and one cap variable on several clauses + all 49 destination shapes of the generator fed by two sources, each also with every variable used again by a trailing send"},
			"thorough": {"senders": "1..4", "receivers": "1..5", "names": "all aliasing patterns over 3 names, <kept> in every position", "amounts": "unbounded positive integers, equal totals", "api": "all 30 scripts + 49 destination shapes x 3 source forms, each also with observers"},
		},
		Assumptions: []string{
			"sender and receiver amounts are > 0 and the totals are equal (guaranteed by pushSender/pushReceiver and runSendStatement; asserted in the C04/C05 harnesses)",
			"math/big Int operations are exact integer arithmetic (modelled as SMT Int terms)",
		},
		Stubs:   []string{"math/big.Int: NewInt Add Sub Cmp Set (exact integer terms)"},
		Outside: []string{"lists longer than the stated bounds"},
	})
}

package checks

import (
	"strings"

	"github.com/formancehq/numscript/zzverif/vm"
)

// canonical name strings of length n over a pool, up to renaming of the
// interchangeable names (restricted growth strings); fixed names (e.g. <kept>)
// are kept as they are.
func namePatterns(n int, free []string, fixed []string) []string {
	var out []string
	var rec func(cur []string, used int)
	rec = func(cur []string, used int) {
		if len(cur) == n {
			out = append(out, strings.Join(cur, ","))
			return
		}
		for i := 0; i <= used && i < len(free); i++ {
			nu := used
			if i == used {
				nu++
			}
			rec(append(append([]string{}, cur...), free[i]), nu)
		}
		for _, f := range fixed {
			rec(append(append([]string{}, cur...), f), used)
		}
	}
	rec(nil, 0)
	return out
}

func init() {
	Register(&Check{
		ID:       "C07",
		Title:    "first-come-first-served pairing, kept stays with earliest sources",
		Files:    []vm.HarnessFile{hf("internal/interpreter", "zz_verif_c07.go")},
		LoadPkgs: []string{"internal/interpreter"},
		InitPkgs: []string{"internal/interpreter"},
		Cases: func(tier string) []Case {
			maxS, maxR := 3, 3
			if tier == "thorough" {
				maxS, maxR = 4, 5
			}
			var cases []Case
			for n := 1; n <= maxS; n++ {
				for m := 1; m <= maxR; m++ {
					for _, s := range namePatterns(n, []string{"a", "b", "c"}, nil) {
						for _, r := range namePatterns(m, []string{"d", "e", "a"}, []string{"<kept>"}) {
							shape := s + "|" + r
							cases = append(cases, Case{ID: "reconcile " + shape, Pkg: "internal/interpreter", Fn: "ZZC07Reconcile",
								Args: []string{shape}, Tag: "Reconcile-unit"})
						}
					}
				}
			}
			return cases
		},
		Bounds: map[string]map[string]interface{}{
			"quick":    {"senders": "1..3", "receivers": "1..3", "names": "all aliasing patterns over 3 names, <kept> in every position", "amounts": "unbounded positive integers, equal totals"},
			"thorough": {"senders": "1..4", "receivers": "1..5", "names": "all aliasing patterns over 3 names, <kept> in every position", "amounts": "unbounded positive integers, equal totals"},
		},
		Assumptions: []string{
			"sender and receiver amounts are > 0 and the totals are equal (guaranteed by pushSender/pushReceiver and runSendStatement; asserted in the C04/C05 harnesses)",
			"math/big Int operations are exact integer arithmetic (modelled as SMT Int terms)",
		},
		Stubs:   []string{"math/big.Int: NewInt Add Sub Cmp Set (exact integer terms)"},
		Outside: []string{"lists longer than the stated bounds"},
	})
}

package checks

import "strings"

func init() {
	Register(&Check{
		ID: "C11", Title: "pure, deterministic, re-entrant", Race: true,
		Files: apiFiles, LoadPkgs: apiLoad, InitPkgs: apiInit,
		Cases: func(tier string) []Case {
			base := c10Cases(tier)
			var cases []Case
			for _, b := range base {
				if strings.HasPrefix(b.Tag, "generated-source-shapes") {
					continue // store independence of generated shapes is C10's subject
				}
				// b.Args = script, spec, meta, flags
				for _, mode := range []string{"purity", "determinism", "flags", "reentrancy"} {

					c := Case{ID: "C11 " + mode + " " + b.ID[4:], Pkg: "", Fn: "ZZC11", Args: []string{mode, b.Args[0], b.Args[1], b.Args[2], b.Args[3]}, Tag: mode}
					cases = append(cases, c)
				}
				// metadata read from the store: the answers a store hands out are left alone, and two
				// calls over one bundled static store write to none of its maps
				if (strings.Contains(b.Args[0], "meta(") && b.Args[2] != "") || strings.Contains(b.Args[0], "balance(") || strings.Contains(b.Args[0], "overdraft(") {
					for _, mode := range []string{"answers", "shared"} {
						cases = append(cases, Case{ID: "C11 " + mode + " " + b.ID[4:], Pkg: "", Fn: "ZZC11", Args: []string{mode, b.Args[0], b.Args[1], b.Args[2], b.Args[3]}, Tag: mode})
					}
				}
			}
			extra := [][]string{
				{sendFixed("USD", "{ @a @b @c }", "{ max %C to @d remaining to @e }"), `set_tx_meta("k", 1)`, `set_account_meta(@a, "k", @b)`},
				{sendAll("USD", "{ @a @b }", "{ 1/2 to @d 1/2 kept }"), sendFixed("EUR", "@c", "@a")},
				{"save %N from @a", sendFixed("USD", "{ 1/3 from @a remaining from @b }", "@d")},
			}
			for _, st := range extra {
				script, spec := instantiate(st, "USD", nil)
				for _, mode := range []string{"purity", "determinism", "flags", "reentrancy"} {
					cases = append(cases, Case{ID: "C11 " + mode + " " + script, Pkg: "", Fn: "ZZC11", Args: []string{mode, script, spec, "", ""}, Tag: mode})
				}
			}
			// several variables missing at once: the error must be the same one every time
			for _, mode := range []string{"determinism", "reentrancy"} {
				script, spec := instantiate([]string{sendFixed("USD", "{ max %C from @a @b }", "{ max %C to @d remaining to @e }")}, "USD", map[string][2]string{"_drop": {"", "n1,c2,c3"}})
				cases = append(cases, Case{ID: "C11 " + mode + " missing-variables " + script, Pkg: "", Fn: "ZZC11", Args: []string{mode, script, spec, "", ""}, Tag: mode})
				script, spec = instantiate([]string{sendFixed("USD", "@a", "@d"), "set_tx_meta(\"k\", $x)", "set_tx_meta(\"j\", $y)"}, "USD", map[string][2]string{"x": {"number", "num"}, "y": {"number", "num"}, "_drop": {"", "x,y"}})
				cases = append(cases, Case{ID: "C11 " + mode + " missing-variables " + script, Pkg: "", Fn: "ZZC11", Args: []string{mode, script, spec, "", ""}, Tag: mode})
			}
			// runs of other scripts in between (process history): undeclared variables must stay undeclared
			other := "vars {\n  monetary $n1\n  monetary $x\n  monetary $c2\n}\nsend $n1 (\n  source = @world\n  destination = @z\n)\nsend $x (\n  source = @world\n  destination = @z\n)"
			for _, target := range []string{"send $x (\n  source = @world\n  destination = @d\n)", "vars {\n  monetary $n1\n}\nsend $n1 (\n  source = { @a @b }\n  destination = { max $x to @d remaining to @e }\n)",
				"vars {\n  monetary $n1\n}\nsend $n1 (\n  source = @a\n  destination = @d\n)\nset_tx_meta(\"k\", $c2)", "vars {\n  monetary $n1\n}\nsend $n1 (\n  source = { @a @b }\n  destination = @d\n)"} {
				cases = append(cases, Case{ID: "C11 history " + target, Pkg: "", Fn: "ZZC11", Args: []string{"history", target, "n1=mon:USD", other, ""}, Tag: "history"})
			}
			return cases
		},
		Bounds: stdBounds(
			map[string]interface{}{"templates": "the C10 templates + 3 multi-statement scripts, x 4 modes (purity, determinism, flags, reentrancy); templates reading metadata also in the modes answers (store keeps and compares what it handed out) and shared (two calls over one bundled static store); + 4 scripts run before and after a run of another script (history)", "map_iteration_orders": "per path one ranged map (each in turn) takes every order (maps <= 3 entries; identity, reversal, rotation for larger ones), the others insertion order", "concurrency": "two calls executed one after the other under the write-confinement monitor (no interleaving is modelled)"},
			map[string]interface{}{"templates": "the C10 thorough templates + 3 multi-statement scripts, x 4 modes; metadata templates also in the modes answers and shared", "map_iteration_orders": "per path up to two ranged maps take every order, the others insertion order", "concurrency": "by write confinement"}),
		Assumptions: append([]string{
			"re-entrancy is decided by reduction: Run writes only objects it allocated itself (no store into the parsed program, the variables map, the flag map or any package-level variable); calls with disjoint write sets cannot interfere under any interleaving",
			"goroutine scheduling and the Go memory model are not modelled; races inside math/big, regexp and the ANTLR runtime are outside",
		}, apiAssumptions...),
		Stubs:   append([]string{"zzvrt.Freeze/FrozenWrites (write-confinement monitor over the VM heap; natively a deep fingerprint of the roots, replay runs under -race)", "zzvrt.MapOrder (symbolic map iteration order)", "zzvrt.Concurrently (sequential in the VM, goroutines natively)"}, apiStubs...),
		Outside: append([]string{"actual interleavings of concurrent Run calls"}, apiOutside...),
	})
}

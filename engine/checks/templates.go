package checks

import (
	"fmt"
	"strings"
)

// Script templates. Placeholders: %C = a fresh monetary cap variable,
// %K = a fresh monetary overdraft-limit variable (both symbolic amounts in the
// statement's asset). Every placeholder becomes its own declared variable.

type tmpl struct {
	stmts []string
}

// instantiate turns statements with placeholders into a script + varspec.
// extraVars: declarations the statements already reference ("monetary $n" -> spec).
func instantiate(stmts []string, asset string, extra map[string][2]string) (string, string) {
	var decls, specs []string
	n := 0
	var out []string
	for _, st := range stmts {
		pos := 0
		for {
			i := strings.Index(st[pos:], "%")
			if i < 0 || pos+i+1 >= len(st) {
				break
			}
			i += pos
			kind := st[i+1]
			if kind != 'C' && kind != 'K' && kind != 'N' {
				pos = i + 1
				continue
			}
			n++
			var name string
			switch kind {
			case 'C':
				name = fmt.Sprintf("c%d", n)
			case 'K':
				name = fmt.Sprintf("k%d", n)
			default:
				name = fmt.Sprintf("n%d", n)
			}
			decls = append(decls, "monetary $"+name)
			specs = append(specs, name+"=mon:"+asset)
			st = st[:i] + "$" + name + st[i+2:]
			pos = i
		}
		out = append(out, st)
	}
	// deterministic order of extra vars
	var names []string
	for k := range extra {
		names = append(names, k)
	}
	sortStrings(names)
	for _, k := range names {
		if strings.HasPrefix(k, "_") {
			// harness directive (e.g. _omit=acc), not a variable
			specs = append(specs, k+"="+extra[k][1])
			continue
		}
		decls = append(decls, extra[k][0]+" $"+k)
		specs = append(specs, k+"="+extra[k][1])
	}
	script := ""
	if len(decls) > 0 {
		script = "vars {\n  " + strings.Join(decls, "\n  ") + "\n}\n"
	}
	script += strings.Join(out, "\n")
	return script, strings.Join(specs, ";")
}

func sortStrings(xs []string) {
	for i := 1; i < len(xs); i++ {
		for j := i; j > 0 && xs[j] < xs[j-1]; j-- {
			xs[j], xs[j-1] = xs[j-1], xs[j]
		}
	}
}

func sendFixed(asset, src, dst string) string {
	return "send %N (\n  source = " + src + "\n  destination = " + dst + "\n)"
}

func sendAll(asset, src, dst string) string {
	return "send [" + asset + " *] (\n  source = " + src + "\n  destination = " + dst + "\n)"
}

// leaf source forms for one account
func srcLeaves(acc string, rich bool) []string {
	out := []string{"@" + acc, "@" + acc + " allowing overdraft up to %K"}
	if rich {
		out = append(out, "@"+acc+" allowing unbounded overdraft")
	}
	return out
}

// srcTrees enumerates source expressions with exactly `leaves` leaves and
// nesting depth <= depth over the given accounts.
func srcTrees(leaves, depth int, accs []string, opts srcOpts) []string {
	var out []string
	if leaves == 1 {
		for _, a := range accs {
			out = append(out, srcLeaves(a, opts.unbounded)...)
		}
		if opts.world {
			out = append(out, "@world")
		}
		if depth > 0 && opts.caps {
			for _, s := range srcTrees(1, 0, accs[:1], srcOpts{}) {
				out = append(out, "max %C from "+s)
			}
		}
		return out
	}
	if depth == 0 {
		return nil
	}
	// in-order lists: first element single leaf or smaller tree
	for i := 1; i < leaves; i++ {
		for _, a := range srcTrees(i, depth-1, accs, opts) {
			for _, b := range srcTrees(leaves-i, depth-1, accs, opts) {
				if i > 1 && strings.HasPrefix(a, "{") && !opts.nested {
					continue
				}
				ib := b
				// flatten the right operand so that {A {B C}} is also produced as {A B C}
				if strings.HasPrefix(b, "{ ") && !strings.Contains(b, " from ") && strings.HasSuffix(b, " }") {
					ib = strings.TrimSuffix(strings.TrimPrefix(b, "{ "), " }")
				}
				out = append(out, "{ "+a+" "+ib+" }")
			}
		}
	}
	if opts.caps {
		for _, s := range srcTrees(leaves, depth-1, accs, srcOpts{}) {
			if strings.HasPrefix(s, "{") {
				out = append(out, "max %C from "+s)
			}
		}
	}
	if opts.allot && leaves == 2 {
		for _, a := range srcTrees(1, 0, accs, srcOpts{}) {
			for _, b := range srcTrees(1, 0, accs, srcOpts{}) {
				out = append(out, "{ 1/2 from "+a+" 1/2 from "+b+" }")
				out = append(out, "{ 1/3 from "+a+" remaining from "+b+" }")
			}
		}
	}
	return dedupe(out)
}

type srcOpts struct {
	world, unbounded, caps, allot, nested bool
}

func dedupe(xs []string) []string {
	seen := map[string]bool{}
	var out []string
	for _, x := range xs {
		if !seen[x] {
			seen[x] = true
			out = append(out, x)
		}
	}
	return out
}

// dstTrees enumerates destination expressions.
func dstTrees(clauses int, kept bool, nested bool, allot bool) []string {
	out := []string{"@d"}
	targets := []string{"to @d", "to @e"}
	if kept {
		targets = append(targets, "kept")
	}
	var rec func(k int, cur string, used int)
	rec = func(k int, cur string, used int) {
		if k == 0 {
			for _, t := range targets {
				out = append(out, "{ "+cur+"remaining "+t+" }")
			}
			return
		}
		for _, t := range targets {
			rec(k-1, cur+"max %C "+t+" ", used)
		}
	}
	for k := 1; k <= clauses; k++ {
		rec(k, "", 0)
	}
	if allot {
		out = append(out, "{ 1/2 to @d 1/2 to @e }", "{ 1/3 to @d remaining to @e }", "{ 2/3 to @d 1/3 to @d }")
		if kept {
			out = append(out, "{ 1/2 kept 1/2 to @e }", "{ 1/4 to @d remaining kept }")
		}
	}
	if nested {
		out = append(out, "{ max %C to { max %C to @d remaining to @e } remaining to @a }",
			"{ max %C to { 1/2 to @d 1/2 to @e } remaining to @d }",
			"{ 1/2 to { max %C to @d remaining kept } 1/2 to @e }",
			// kept inside a nested block that is followed by another receiver
			"{ max %C to { max %C to @d remaining kept } remaining to @e }",
			"{ 1/2 to { remaining kept } 1/2 to @e }",
			"{ max %C to { 1/2 kept 1/2 to @d } remaining to @e }",
			"{ 1/3 to { max %C kept remaining to @d } remaining to { max %C to @e remaining kept } }")
	}
	return dedupe(out)
}

// every k-th element (deterministic thinning)
func thin(xs []string, max int) []string {
	if len(xs) <= max || max <= 0 {
		return xs
	}
	var out []string
	for i := 0; i < max; i++ {
		out = append(out, xs[i*len(xs)/max])
	}
	return out
}

func apiCase(prop, tag string, stmts []string, extra map[string][2]string) Case {
	script, spec := instantiate(stmts, "USD", extra)
	return Case{ID: prop + " " + strings.ReplaceAll(script, "\n", " "), Pkg: "", Fn: "ZZAPI", Args: []string{prop, script, spec}, Tag: tag}
}

// observed returns the case with one trailing statement per declared monetary /
// portion variable that uses the variable again (`send $v` from @world to a fresh
// account, a two-way split by `$p`). Any corruption of a variable's value by an
// earlier statement (in-place arithmetic on storage shared with the variable)
// then shows in the postings the property's own assertions compare.
func observed(c Case) Case {
	if len(c.Args) < 3 || !strings.HasPrefix(c.Args[1], "vars {") {
		return c
	}
	script := c.Args[1]
	end := strings.Index(script, "\n}\n")
	if end < 0 {
		return c
	}
	var extra []string
	for _, line := range strings.Split(script[len("vars {"):end], "\n") {
		f := strings.Fields(line)
		if len(f) != 2 || !strings.HasPrefix(f[1], "$") {
			continue
		}
		switch f[0] {
		case "monetary":
			extra = append(extra, "send "+f[1]+" (\n  source = @world\n  destination = @zzo\n)")
		case "portion":
			extra = append(extra, "send [USD 7] (\n  source = @world\n  destination = { "+f[1]+" to @zzp remaining to @zzq }\n)")
		}
	}
	if len(extra) == 0 {
		return c
	}
	out := c
	out.Args = append([]string{}, c.Args...)
	out.Args[1] = script + "\n" + strings.Join(extra, "\n")
	out.ID = c.ID + " +observers"
	out.Tag = "variables-used-again/" + c.Tag
	return out
}

// withObserved appends the observed variant of every k-th case that declares variables.
func withObserved(cases []Case, k int) []Case {
	out := cases
	n := 0
	for _, c := range cases {
		o := observed(c)
		if o.ID == c.ID {
			continue
		}
		if n%k == 0 {
			out = append(out, o)
		}
		n++
	}
	return out
}

func thinCases(cs []Case, k int) []Case {
	var out []Case
	for i, c := range cs {
		if i%k == 0 {
			out = append(out, c)
		}
	}
	return out
}

// apiCaseAsset is apiCase with another asset for the %N/%C/%K variables.
func apiCaseAsset(prop, tag string, stmts []string, extra map[string][2]string, asset string) Case {
	script, spec := instantiate(stmts, asset, extra)
	return Case{ID: prop + " " + strings.ReplaceAll(script, "\n", " "), Pkg: "", Fn: "ZZAPI", Args: []string{prop, script, spec}, Tag: tag}
}

// mixCases: features of the language meeting each other - an asset with a precision
// suffix, asset and number variables inside a monetary literal, single-element
// collections, one account or variable in two roles, deep nesting, a send-all feeding
// a nested destination, a second asset next to the first.
func mixCases(prop string) []Case {
	var cases []Case
	tag := "feature-mix"
	add := func(stmts []string, extra map[string][2]string) {
		cases = append(cases, apiCase(prop, tag, stmts, extra))
	}
	// precision suffix
	for _, st := range [][]string{
		{sendFixed("USD/2", "{ @a @b }", "{ max %C to @d remaining to @e }")},
		{sendAll("USD/2", "{ @a @b allowing overdraft up to %K }", "{ 1/3 to @d 2/3 kept }")},
		{"save %N from @a", sendFixed("USD/2", "{ max %C from @a @world }", "@d")},
	} {
		cases = append(cases, apiCaseAsset(prop, tag+"/precision-asset", st, nil, "USD/2"))
	}
	// spellings that are not the shortest one are assets of their own ("USD/0" is not "USD")
	for _, as := range []string{"USD/0", "EUR/02"} {
		st := []string{sendFixed(as, "{ @a @b }", "{ max %C to @d remaining to @e }")}
		cases = append(cases, apiCaseAsset(prop, tag+"/precision-asset", st, nil, as))
	}
	av := map[string][2]string{"as": {"asset", "asset:USD"}, "n": {"number", "num"}}
	add([]string{"send [$as $n] (\n  source = { @a @b }\n  destination = { max [$as $n] to @d remaining to @e }\n)"}, av)
	add([]string{"send [$as *] (\n  source = { @a max [$as $n] from @b }\n  destination = { max [$as $n] kept remaining to @d }\n)"}, av)
	add([]string{"save [$as $n] from @a", "send [$as $n] (\n  source = @a allowing overdraft up to [$as $n]\n  destination = @d\n)"}, av)
	// single-element collections
	add([]string{sendFixed("USD", "{ @a }", "{ remaining to @d }")}, nil)
	add([]string{sendFixed("USD", "{ max %C from @a }", "{ 100% to @d }")}, nil)
	add([]string{sendAll("USD", "{ @a }", "{ max %C to @d remaining kept }")}, nil)
	add([]string{sendFixed("USD", "{ 1/1 from @a }", "{ 1/1 to @d }")}, nil)
	add([]string{sendFixed("USD", "{ { @a } { @b } }", "{ remaining kept }")}, nil)
	// one account / variable in two roles
	xv := map[string][2]string{"x": {"account", "acc:a"}}
	add([]string{sendFixed("USD", "{ $x @b }", "{ max %C to @b remaining to $x }")}, xv)
	add([]string{sendFixed("USD", "{ @a @b }", "{ max %C to @a remaining to @b }")}, nil)
	add([]string{sendAll("USD", "{ $x @a @b }", "$x")}, xv)
	add([]string{sendFixed("USD", "@world", "$x"), sendFixed("USD", "$x", "@d")}, xv)
	// @world reached through a variable (fixed-amount sends only: under send-all it is a value the checker cannot see)
	wv := map[string][2]string{"w": {"account", "acc:world"}}
	add([]string{sendFixed("USD", "{ @a $w }", "@d")}, wv)
	add([]string{sendFixed("USD", "{ @a $w allowing overdraft up to %K @b }", "{ max %C to @d remaining to $w }")}, wv)
	add([]string{sendFixed("USD", "max %C from { $w @a }", "@d"), sendFixed("USD", "@a", "$w"), sendFixed("USD", "{ @a @b }", "@e")}, wv)
	// two account variables holding the same name: a posting from the account to itself, then a draw from it
	xy := map[string][2]string{"x": {"account", "acc:a"}, "y": {"account", "acc:a"}}
	add([]string{sendFixed("USD", "$x", "$y"), sendFixed("USD", "{ $x @world }", "@d")}, xy)
	add([]string{sendFixed("USD", "$x", "{ 1/2 to $y 1/2 to @b }"), sendAll("USD", "{ $y @b }", "@d")}, xy)
	// deep nesting
	add([]string{sendFixed("USD", "{ 1/2 from { max %C from { @a @b } @c } remaining from @a }", "@d")}, nil)
	add([]string{sendFixed("USD", "max %C from { @a allowing overdraft up to %K max %C from { @b @a } }", "{ max %C to { 1/2 to @d 1/2 kept } remaining to @e }")}, nil)
	add([]string{sendAll("USD", "{ max %C from { @a @b } @a }", "{ 1/2 to { max %C to @d remaining kept } 1/2 to @e }")}, nil)
	// a second asset next to the first
	add([]string{sendFixed("USD", "{ @a @b }", "@d"), "send [EUR/2 *] (\n  source = { @a @d }\n  destination = { 1/2 to @b 1/2 kept }\n)", sendAll("USD", "@d", "@a")}, nil)
	// an account credited in one asset before it is debited in another one
	add([]string{"send [EUR/2 5] (\n  source = @world\n  destination = @a\n)", sendFixed("USD", "@a", "@d")}, nil)
	add([]string{"send [EUR/2 *] (\n  source = @b\n  destination = { 1/2 to @a 1/2 to @b }\n)", sendAll("USD", "{ @a allowing overdraft up to %K @b }", "@d"), "send [EUR/2 *] (\n  source = @a\n  destination = @d\n)"}, nil)
	ex := map[string][2]string{"_store": {"", "exact"}}
	add([]string{"send [EUR/2 5] (\n  source = @world\n  destination = @a\n)", sendFixed("USD", "@a", "@d")}, ex)
	add([]string{sendFixed("USD", "@a", "@b"), "send [EUR/2 *] (\n  source = @b\n  destination = { 1/2 to @a 1/2 to @b }\n)", sendAll("USD", "{ @a allowing overdraft up to %K @b }", "@d")}, ex)
	// an account behind a capped unbounded overdraft and again as a plain source
	add([]string{sendFixed("USD", "{ max %C from @a allowing unbounded overdraft @a @b }", "@d")}, nil)
	add([]string{sendAll("USD", "{ max %C from @a allowing unbounded overdraft @a @b }", "{ max %C to @d remaining to @e }")}, nil)
	// caps and limits written as a - b + c (the intermediate difference may be negative)
	add([]string{sendFixed("USD", "@world", "{ max %C - %C + %C to @d remaining to @e }")}, nil)
	add([]string{sendAll("USD", "{ @a allowing overdraft up to %K - %K + %K @b }", "{ max %C - %C to @d remaining kept }")}, nil)
	add([]string{"send %N - %N + %N (\n  source = { max %C - %C + %C from @a @world }\n  destination = @d\n)"}, nil)
	// statement kinds following each other
	add([]string{"set_tx_meta(\"k\", 1)", sendFixed("USD", "@a", "@d"), "set_account_meta(@a, \"k\", @d)", "save [USD *] from @a", sendFixed("USD", "{ @a @world }", "@e")}, nil)
	return cases
}

package checks

import (
	"strings"

	"github.com/formancehq/numscript/zzverif/vm"
)

// tokens of a script (coarse: words, quoted strings, single punctuation)
func scriptTokens(s string) []string {
	var toks []string
	i := 0
	for i < len(s) {
		c := s[i]
		switch {
		case c == ' ' || c == '\n' || c == '\t':
			j := i
			for j < len(s) && (s[j] == ' ' || s[j] == '\n' || s[j] == '\t') {
				j++
			}
			toks = append(toks, s[i:j])
			i = j
		case c == '"':
			j := i + 1
			for j < len(s) && s[j] != '"' {
				j++
			}
			if j < len(s) {
				j++
			}
			toks = append(toks, s[i:j])
			i = j
		case strings.ContainsRune("(){}[]=,*+-", rune(c)):
			toks = append(toks, s[i:i+1])
			i++
		default:
			j := i
			for j < len(s) && !strings.ContainsRune(" \n\t(){}[]=,*+-\"", rune(s[j])) {
				j++
			}
			toks = append(toks, s[i:j])
			i = j
		}
	}
	return toks
}

func isSpaceTok(t string) bool { return strings.TrimSpace(t) == "" }

// editCorpus: every prefix at token boundaries, single-token deletions,
// duplications and bracket removals of the base scripts.
func editCorpus(bases []string, stride int) []string {
	var out []string
	n := 0
	add := func(s string) {
		n++
		if stride <= 1 || n%stride == 0 {
			out = append(out, s)
		}
	}
	for _, b := range bases {
		toks := scriptTokens(b)
		out = append(out, b)
		for i := range toks {
			if isSpaceTok(toks[i]) {
				continue
			}
			add(strings.Join(toks[:i], ""))                                     // prefix
			add(strings.Join(toks[:i], "") + strings.Join(toks[i+1:], ""))      // deletion
			add(strings.Join(toks[:i+1], "") + " " + strings.Join(toks[i:], "")) // duplication
		}
		add(strings.Join(toks, "") + " )")
		add("{ " + strings.Join(toks, ""))
	}
	return dedupe(out)
}

// insertCorpus: a token of a small alphabet inserted before, or replacing, every token.
// characters no token can contain, alone and after a misplaced word (a typing slip)
var strayAlphabet = []string{";", "'", "#", "?", "é", "@", "$", "\"", "kept @", "to ;", "'v'", "max #", "1 ?", "from é", "remaining $", ", ."}

func insertCorpus(bases []string, stride int) []string {
	return insertCorpusOf(bases, stride, []string{",", "=", "max", "from", "to", "(", ")", "{", "}", "$x", "@a", "1", "+", "remaining", "kept", "*", "[", "]", "1/2", "\"s\""})
}

func insertCorpusOf(bases []string, stride int, alphabet []string) []string {
	var out []string
	n := 0
	for bi, b := range bases {
		toks := scriptTokens(b)
		for i := range toks {
			if isSpaceTok(toks[i]) {
				continue
			}
			for ai, a := range alphabet {
				n++
				if stride > 1 && (n+bi+ai)%stride != 0 {
					continue
				}
				out = append(out, strings.Join(toks[:i], "")+a+" "+strings.Join(toks[i:], ""))
				out = append(out, strings.Join(toks[:i], "")+a+strings.Join(toks[i+1:], ""))
			}
		}
	}
	return dedupe(out)
}

var extraTexts = []string{
	"", " ", "\n", "vars", "vars {", "vars { }", "vars { number }", "vars { number = balance(@a, USD) }", "vars { $x }", "vars { number $x = }",
	"vars { monetary $m = balance( }", "vars { monetary $m = (@a) }", "send", "send [", "send [USD", "send [USD 1] (", "send [USD 1] ( source", "send [USD 1] ( source = ",
	"send [USD 1] ( source = @a destination", "send [USD 1] ( source = { destination = @b )", "send [USD 1] ( source = max from @a destination = @b )",
	"send [USD 1] ( source = @a allowing overdraft up to destination = @b )", "send [USD 1] ( source = { 1/2 from } destination = @b )",
	"send [USD 1] ( source = @a destination = { max to @b remaining } )", "send [USD 1] ( source = @a destination = { 1/2 to 1/2 kept } )",
	"save", "save [USD 1]", "save [USD 1] from", "save from @a", "set_tx_meta(", "set_tx_meta(,)", "set_tx_meta(\"k\",", "f(", "f()", "()", "1/0", "send [USD 1/0] (source=@a destination=@b)",
	"send [USD 1] ( source = { 1/0 from @a remaining from @b } destination = @c )", "send [USD 1] ( source = @a destination = { 0/0 to @b remaining kept } )",
	"set_tx_meta(\"k\", 1, max, 2)", "set_tx_meta(\"k\", 1, ,, 2)", "set_tx_meta(\"k\", 1, =, 2, 3)", "set_account_meta(@a, \"k\", 1, from to, 2)", "vars { monetary $b = balance(@a, USD/2, =, 3) }\nsend $b (source=@world destination=@d)",
	"set_tx_meta(\"k\", \"a\" + )", "set_tx_meta(\"k\", @a - ", "set_account_meta(@a, \"k\", USD/2 - )", "foo(10% + )", "vars { account $acc }\nset_tx_meta(\"k\", $acc + )", "set_tx_meta(\"k\", 1 + )", "set_tx_meta(\"k\", + 1)",
	"send [USD 1 + ] (source=@a destination=@b)", "send [USD 1] (source = max [USD 1] + from @a destination=@b)", "send [USD 1] (source=@a destination={ max [USD 1] - to @b remaining kept })",
	// holes (elements the parser could not build) inside lists, after an unbounded source / before a target
	"send [USD 1] ( source = { @world\n @fees allowing } destination = @d )", "send [USD 1] ( source = { @world [ } destination = @d )", "send [USD 1] (\n source = {\n  @world\n  @a +",
	"send [USD 1] ( source = { @a allowing unbounded overdraft max from } destination = @d )", "send [USD 1] ( source = { @world max [USD 1] from } destination = @d )", "send [USD *] ( source = { @a @world 1/2 } destination = @d )",
	"vars { monetary $c }\nsend [USD 1] ( source = @a destination = { max $c remaining to @b } )", "vars { monetary $c }\nsend [USD 1] ( source = @a destination = { max $c to @b max [USD 5] } )", "send [USD 1] ( source = @a destination = { 1/2 } )",
	"vars { portion $p }\nsend [USD 1] ( source = @a destination = { $p to @b 1/2 } )", "send [USD 1] ( source = @a destination = { 1/2 to @b remaining } )", "send [USD 1] ( source = @a destination = { max [USD 1] to remaining kept } )",
	"set_tx_meta(\"dir\", \"C:\\\")", "set_tx_meta(\"k\", \"a\\\"", "vars { number $a number $b number $c number $d number $e number $f number $g }", "vars { number $a number $b number $c number $d number $e number $f number $g }\nset_tx_meta(\"k\", $c)",
	"send $x ( source = $y destination = $z )", "vars { account $a account $a } send [USD *] ( source = $a destination = $a )",
	"send [USD 1] ( source = @a destination = @b ) é", "set_tx_meta(\"é\", \"ü\")", "vars { string $é }", "send [USD 1 (", "send ] (", "} } }", "$ $ $", "@ @", "[ ] [", "max max max", "remaining", "kept",
}

func c18Texts(tier string) []string {
	bases := append(append([]string{}, validTemplates...), brokenTemplates[:12]...)
	stride := 9
	if tier == "thorough" {
		bases = append(append([]string{}, validTemplates...), brokenTemplates...)
		stride = 1
	}
	istride := 97
	if tier == "thorough" {
		istride = 7
	}
	strayStride := istride * 6
	if tier == "thorough" {
		strayStride = istride * 2
	}
	texts := append(append(editCorpus(bases, stride), insertCorpus(bases, istride)...), extraTexts...)
	texts = append(texts, insertCorpusOf(bases, strayStride, strayAlphabet)...)
	texts = append(texts, "set_tx_meta(\"k\", 'v')", "send [USD 1] (\n source = @a\n destination = @b kept @\n)", "send [USD 1] ( source = @a ; destination = @b )", "vars { number $n ? }")
	return dedupe(texts)
}

func init() {
	Register(&Check{
		ID: "C18", Title: "editor analysis survives any text (positions symbolic, texts from an edit corpus)", PanicViolates: true,
		Files: []vm.HarnessFile{hf("internal/analysis", "zz_verif_c16.go"), hf("internal/analysis", "zz_verif_c18.go")}, LoadPkgs: []string{"internal/analysis"}, InitPkgs: []string{"internal/analysis"},
		PanicFilter: func(f vm.Finding) bool { return !strings.Contains(f.Msg, "native parser panic") },
		Cases: func(tier string) []Case {
			var cases []Case
			for _, t := range c18Texts(tier) {
				id := strings.ReplaceAll(t, "\n", "\\n")
				cases = append(cases, Case{ID: "text " + id, Pkg: "internal/analysis", Fn: "ZZC18", Args: []string{t}, Tag: "edit-corpus"})
			}
			return cases
		},
		Bounds: stdBounds(
			map[string]interface{}{"texts": "every 9th prefix / token deletion / token duplication / bracket edit and every 97th insertion/replacement of a token from a 20-token alphabet, of 27 scripts, + 82 hand-written broken texts", "cursor": "every (line, character) with 0 <= line, character <= 2^30 (symbolic)", "map_orders": "per path one ranged map of the checker (each in turn; two in the thorough tier) takes every iteration order (<= 3 entries; larger: identity/reverse/rotation), the others insertion order"},
			map[string]interface{}{"texts": "every prefix / token deletion / token duplication / bracket edit and every 7th insertion/replacement from a 20-token alphabet, of 78 scripts, + 82 broken texts", "cursor": "symbolic", "map_orders": "all (<= 3 entries)"}),
		Assumptions: []string{
			"SCOPED CLAIM: the text dimension is a bounded corpus (the map from text to partial tree is ANTLR error recovery, outside the encoding); the solver quantifies over cursor positions and map iteration orders on each parser-produced tree",
			"parser.Parse runs natively; a native parser panic on a corpus text is skipped here (it belongs to C14)",
		},
		Stubs:   []string{"parser.Parse (native, imported by reflection)", "math/big.Rat", "fmt.Sprintf", "unicode/utf8.RuneCountInString"},
		Outside: []string{"texts outside the corpus", "the ANTLR lexer/parser and its error recovery"},
	})
}

// Package checks defines, per property, the harnesses, the enumerated case
// families and the reporting; the deciding step is always the solver's verdict
// over the symbolic paths of the real code (package vm).
package checks

import (
	"crypto/sha1"
	"encoding/json"
	"fmt"
	"os"
	"os/exec"
	"path/filepath"
	"sort"
	"strings"
	"sync"
	"time"

	"github.com/formancehq/numscript/zzverif/smt"
	"github.com/formancehq/numscript/zzverif/vm"
)

var (
	VerifDir   = verifDir()
	RepoDir    = envOr("VERIF_REPO", "/repo")
	HarnessDir = VerifDir + "/harness"
	// OutDir receives work files, replays and evidence (VERIF_OUT lets a seeded-change
	// evaluation run beside the registered checks without touching their files)
	OutDir = envOr("VERIF_OUT", VerifDir)
)

func envOr(k, d string) string {
	if v := os.Getenv(k); v != "" {
		return v
	}
	return d
}

// verifDir: /verif, or the snapshot directory a background run works in.
func verifDir() string {
	if d := os.Getenv("VERIF_DIR"); d != "" {
		return d
	}
	return "/verif"
}

type Case struct {
	ID       string
	Pkg      string // repo-relative package dir of the harness ("" = root package)
	Fn       string
	Args     []string
	MapOrder bool
	MaxPaths int
	Tag      string // family label used in evidence
}

type Check struct {
	ID            string
	Title         string
	Files         []vm.HarnessFile
	LoadPkgs      []string // repo-relative package dirs to load
	InitPkgs      []string
	Cases         func(tier string) []Case
	PanicViolates bool // a reachable panic is a violation of THIS property
	Bounds        map[string]map[string]interface{}
	Assumptions   []string
	Stubs         []string
	Outside       []string
	Functions     []string // entry points (informational; the measured list is recorded too)
	// PanicFilter restricts which panics count (nil = all) when PanicViolates.
	PanicFilter func(f vm.Finding) bool
	Validate    int      // number of path models per case to validate VM vs native (0 = default)
	Race        bool     // run native replays under the race detector
	RecordStubs []string // functions the VM replaces by recording stubs
	SelfTest    bool     // validate the string-level models against the native functions first
	Z3TimeoutMs int      // per-query limit of the primary solver before the fallback is tried (0 = 8000)
	Timeout     map[string]time.Duration
}

var Registry = map[string]*Check{}

var (
	statsMuSelf       sync.Mutex
	selfBad           []string
	modelValidated    int
	hazardsBenign     int
	completionsBenign int
)

func Register(c *Check) { Registry[c.ID] = c }

func PkgPath(dir string) string { return pkgPath(dir) }

func ZZVrtFile() vm.HarnessFile { return zzvrtFile }

func pkgPath(dir string) string {
	if dir == "" {
		return vm.RepoModule
	}
	return vm.RepoModule + "/" + dir
}

var zzvrtFile = vm.HarnessFile{Dir: "internal/zzvrt", Name: "zzvrt.go", Src: HarnessDir + "/zzvrt/zzvrt.go"}

func hf(dir, name string) vm.HarnessFile {
	base := filepath.Base(dir)
	if dir == "" {
		base = "root"
	}
	return vm.HarnessFile{Dir: dir, Name: name, Src: filepath.Join(HarnessDir, base, name)}
}

// ------------------------------------------------------------------ known findings

type KnownFinding struct {
	Property string   `json:"property"`
	Status   string   `json:"status"` // "known" | "fixed"
	Harness  string   `json:"harness,omitempty"`
	Cases    []string `json:"cases,omitempty"` // exact case ids; "*" suffix = prefix match
	Assert   string   `json:"assert,omitempty"`
	What     string   `json:"what"`
	Commit   string   `json:"commit,omitempty"`
	Witness  string   `json:"witness,omitempty"`
	Region   string   `json:"region,omitempty"` // harness-declared region the failing input must lie in
}

func loadKnown() []KnownFinding {
	b, err := os.ReadFile(VerifDir + "/known_findings.json")
	if err != nil {
		return nil
	}
	var out struct {
		Findings []KnownFinding `json:"findings"`
	}
	if json.Unmarshal(b, &out) != nil {
		return nil
	}
	return out.Findings
}

func (k KnownFinding) matches(prop, harness, caseID, assertID string, regions map[string]bool) bool {
	if k.Status != "known" || k.Property != prop {
		return false
	}
	if k.Region != "" && !regions[k.Region] {
		return false
	}
	if k.Harness != "" && k.Harness != harness {
		return false
	}
	if k.Assert != "" && k.Assert != assertID && !(strings.HasSuffix(k.Assert, "*") && strings.HasPrefix(assertID, strings.TrimSuffix(k.Assert, "*"))) {
		return false
	}
	if len(k.Cases) == 0 {
		return true
	}
	for _, c := range k.Cases {
		if c == caseID || (strings.HasSuffix(c, "*") && strings.HasPrefix(caseID, strings.TrimSuffix(c, "*"))) {
			return true
		}
	}
	return false
}

// ------------------------------------------------------------------ replay

type replayFile struct {
	Property string            `json:"property"`
	Harness  string            `json:"harness"`
	Package  string            `json:"package"`
	Args     []string          `json:"args"`
	Values   map[string]string `json:"values"`
	Expect   string            `json:"expect"`
	Msg      string            `json:"msg,omitempty"`
	Case     string            `json:"case,omitempty"`
}

type nativeOutcome struct {
	Failed  []string `json:"failed"`
	Panic   string   `json:"panic,omitempty"`
	Invalid string   `json:"invalid,omitempty"`
	Notes   []string `json:"notes,omitempty"`
	Reached []string `json:"reached,omitempty"`
}

// genDriver writes the native replay driver (a _test.go file) for one package.
func genDriver(pkgName string, fns map[string]int) string {
	var sb strings.Builder
	sb.WriteString("package " + pkgName + "\n\n")
	sb.WriteString("import (\n\t\"encoding/json\"\n\t\"fmt\"\n\t\"os\"\n\t\"testing\"\n\n\t\"github.com/formancehq/numscript/internal/zzvrt\"\n)\n\n")
	sb.WriteString("func zzDispatch(h string, a []string) bool {\n\tswitch h {\n")
	names := make([]string, 0, len(fns))
	for n := range fns {
		names = append(names, n)
	}
	sort.Strings(names)
	for _, n := range names {
		sb.WriteString("\tcase \"" + n + "\":\n\t\tif len(a) != " + fmt.Sprint(fns[n]) + " {\n\t\t\treturn false\n\t\t}\n\t\t" + n + "(")
		for i := 0; i < fns[n]; i++ {
			if i > 0 {
				sb.WriteString(", ")
			}
			sb.WriteString(fmt.Sprintf("a[%d]", i))
		}
		sb.WriteString(")\n\t\treturn true\n")
	}
	sb.WriteString("\t}\n\treturn false\n}\n\n")
	sb.WriteString(`func TestZZVerifReplay(t *testing.T) {
	list := os.Getenv("VERIF_REPLAY_LIST")
	if list == "" {
		t.Skip("no replay requested")
	}
	b, err := os.ReadFile(list)
	if err != nil {
		t.Fatal(err)
	}
	var paths []string
	if err := json.Unmarshal(b, &paths); err != nil {
		t.Fatal(err)
	}
	for _, p := range paths {
		r, err := zzvrt.Load(p)
		if err != nil {
			fmt.Println("REPLAY-ERROR " + p + " " + err.Error())
			continue
		}
		known := true
		o := zzvrt.Run(func() { known = zzDispatch(r.Harness, r.Args) })
		if !known {
			fmt.Println("REPLAY-ERROR " + p + " unknown harness " + r.Harness)
			continue
		}
		ob, _ := json.Marshal(o)
		fmt.Println("REPLAY-RESULT " + p + " " + string(ob))
	}
}
`)
	return sb.String()
}

// runNative executes replays natively (one go test per package) and returns path -> outcome.
func runNative(ld *vm.Loaded, m *vm.VM, chk *Check, workDir string, byPkg map[string][]string) (map[string]nativeOutcome, []string) {
	out := map[string]nativeOutcome{}
	var errs []string
	for dir, paths := range byPkg {
		if len(paths) == 0 {
			continue
		}
		sp := m.Pkgs[pkgPath(dir)]
		if sp == nil {
			errs = append(errs, "package not loaded: "+dir)
			continue
		}
		fns := map[string]int{}
		for name, mem := range sp.Members {
			if strings.HasPrefix(name, "ZZ") {
				if f := sp.Func(name); f != nil && mem != nil {
					allStr := true
					for _, p := range f.Params {
						if p.Type().String() != "string" {
							allStr = false
						}
					}
					if allStr {
						fns[name] = len(f.Params)
					}
				}
			}
		}
		driver := genDriver(sp.Pkg.Name(), fns)
		driverPath := filepath.Join(workDir, "driver_"+strings.ReplaceAll(dir, "/", "_")+"_test.go")
		os.WriteFile(driverPath, []byte(driver), 0o644)
		replace := map[string]string{}
		for v, real := range ld.Harness {
			replace[v] = real
		}
		replace[filepath.Join(RepoDir, dir, "zz_verif_driver_test.go")] = driverPath
		ob, _ := json.Marshal(map[string]interface{}{"Replace": replace})
		ovPath := filepath.Join(workDir, "overlay_"+strings.ReplaceAll(dir, "/", "_")+".json")
		os.WriteFile(ovPath, ob, 0o644)
		lb, _ := json.Marshal(paths)
		listPath := filepath.Join(workDir, "list_"+strings.ReplaceAll(dir, "/", "_")+".json")
		os.WriteFile(listPath, lb, 0o644)
		target := "./" + dir
		if dir == "" {
			target = "."
		}
		args := []string{"test", "-vet=off", "-count=1", "-timeout", "20m", "-overlay", ovPath, "-run", "^TestZZVerifReplay$", "-v"}
		if chk.Race {
			args = append(args, "-race")
		}
		args = append(args, target)
		cmd := exec.Command("go", args...)
		cmd.Dir = RepoDir
		cmd.Env = append(os.Environ(), "GOFLAGS=-mod=mod", "GOPROXY=off", "GOSUMDB=off", "GOTOOLCHAIN=local", "VERIF_REPLAY_LIST="+listPath)
		b, err := cmd.CombinedOutput()
		got := 0
		raceSeen := false
		for _, line := range strings.Split(string(b), "\n") {
			line = strings.TrimSpace(line)
			if strings.Contains(line, "WARNING: DATA RACE") {
				raceSeen = true
			}
			if strings.HasPrefix(line, "REPLAY-RESULT ") {
				rest := strings.TrimPrefix(line, "REPLAY-RESULT ")
				i := strings.IndexByte(rest, ' ')
				if i < 0 {
					continue
				}
				var o nativeOutcome
				if json.Unmarshal([]byte(rest[i+1:]), &o) == nil {
					if raceSeen {
						// the race detector reported during this replay
						o.Failed = append(o.Failed, "C11:concurrent-runs-share-no-written-state")
						o.Notes = append(o.Notes, "DATA RACE reported by the race detector")
						raceSeen = false
					}
					out[rest[:i]] = o
					got++
				}
			} else if strings.HasPrefix(line, "REPLAY-ERROR ") {
				errs = append(errs, line)
			}
		}
		if got != len(paths) {
			tail := string(b)
			if len(tail) > 1500 {
				tail = tail[len(tail)-1500:]
			}
			errs = append(errs, fmt.Sprintf("native replay in %q: %d/%d outcomes (err=%v): %s", dir, got, len(paths), err, tail))
		}
	}
	return out, errs
}

// ------------------------------------------------------------------ running a check

type caseOutcome struct {
	c   Case
	res vm.CaseResult
}

type Evidence struct {
	PropertyID  string                 `json:"property_id"`
	Tier        string                 `json:"tier"`
	Seed        int                    `json:"seed"`
	Level       string                 `json:"level"`
	Coverage    map[string]interface{} `json:"coverage"`
	Assumptions []string               `json:"assumptions"`
	WallS       float64                `json:"wall_s"`
	Violations  int                    `json:"violations"`
}

func hashStr(s string) string {
	h := sha1.Sum([]byte(s))
	return fmt.Sprintf("%x", h[:5])
}

func Run(id, tier string, seed int, workers int) int {
	t0 := time.Now()
	chk := Registry[id]
	if chk == nil {
		fmt.Println("unknown check", id)
		return 2
	}
	workDir := filepath.Join(OutDir, "work", id)
	os.RemoveAll(workDir)
	os.MkdirAll(workDir, 0o755)
	replayDir := filepath.Join(OutDir, "replays", id)
	os.MkdirAll(replayDir, 0o755)

	files := append([]vm.HarnessFile{zzvrtFile}, chk.Files...)
	patterns := []string{pkgPath("internal/zzvrt")}
	for _, d := range chk.LoadPkgs {
		patterns = append(patterns, pkgPath(d))
	}
	ld, err := vm.Load(RepoDir, files, patterns)
	toolErrors := []string{}
	staleAnchors := []string{}
	if err != nil {
		// the repo (or every harness) does not load: nothing can be decided
		toolErrors = append(toolErrors, "load: "+err.Error())
		writeEvidence(chk, tier, seed, t0, nil, nil, toolErrors, staleAnchors, 0, nil, nil, 0)
		fmt.Printf("INCONCLUSIVE property=%s load failed: %v\n", id, err)
		return 0
	}
	for p, es := range ld.PkgErrs {
		staleAnchors = append(staleAnchors, fmt.Sprintf("%s: %s", p, strings.Join(es, "; ")))
	}

	cases := chk.Cases(tier)
	// deterministic order, seed only rotates scheduling
	if seed != 0 && len(cases) > 1 {
		k := seed % len(cases)
		if k < 0 {
			k = -k
		}
		cases = append(append([]Case{}, cases[k:]...), cases[:k]...)
	}

	if workers <= 0 {
		workers = 16
	}
	if workers > len(cases) {
		workers = len(cases)
	}
	if workers < 1 {
		workers = 1
	}
	initPkgs := []string{}
	for _, d := range chk.InitPkgs {
		initPkgs = append(initPkgs, pkgPath(d))
	}
	nValidate := chk.Validate
	if nValidate == 0 {
		nValidate = 1
		if tier == "thorough" {
			nValidate = 2
		}
	}

	selfN := 0
	var selfWG sync.WaitGroup
	if chk.SelfTest {
		selfWG.Add(1)
		go func() {
			defer selfWG.Done()
			m := vm.New(ld.Prog, ld.Pkgs, vm.RepoModule)
			s, err := smt.NewSolver("z3", 8000)
			if err != nil {
				return
			}
			defer s.Close()
			m.Solver = s
			if err := m.InitRepo(nil); err != nil {
				return
			}
			n, bad := m.SelfTest(3)
			statsMuSelf.Lock()
			selfN = n
			for _, b := range bad {
				selfBad = append(selfBad, "model validation mismatch (checks depending on this model are inconclusive): "+b)
			}
			statsMuSelf.Unlock()
		}()
	}
	results := make([]caseOutcome, len(cases))
	type concRec struct {
		c      Case
		values map[string]string
		out    vm.ConcOutcome
	}
	var concMu sync.Mutex
	var concRuns []concRec
	var totalStats smt.Stats
	var statsMu sync.Mutex
	jobs := make(chan int, len(cases))
	for i := range cases {
		jobs <- i
	}
	close(jobs)
	var wg sync.WaitGroup
	var firstVM *vm.VM
	var vmMu sync.Mutex
	// global time budget of one check run: cases not started by then are reported as not explored
	budget := 10 * time.Minute
	if tier == "thorough" {
		budget = 45 * time.Minute
	}
	if d, ok := chk.Timeout[tier]; ok {
		budget = d
	}
	if v := os.Getenv("VERIF_BUDGET_MIN"); v != "" {
		var mins int
		if _, err := fmt.Sscan(v, &mins); err == nil && mins > 0 {
			budget = time.Duration(mins) * time.Minute
		}
	}
	deadline := t0.Add(budget)
	for w := 0; w < workers; w++ {
		wg.Add(1)
		go func() {
			defer wg.Done()
			m := vm.New(ld.Prog, ld.Pkgs, vm.RepoModule)
			m.PermuteBudget = 1
			if tier == "thorough" {
				m.PermuteBudget = 2
			}
			zt := chk.Z3TimeoutMs
			if zt == 0 {
				zt = 8000
			}
			s, err := smt.NewSolver("z3", zt)
			if err != nil {
				panic(err)
			}
			defer s.Close()
			s.Fallback = "cvc5"
			// second opinion on a sample of the unsat verdicts (per worker)
			s.XEvery, s.XMax = 199, 25
			if tier == "thorough" {
				s.XEvery, s.XMax = 97, 400
			}
			if v := os.Getenv("VERIF_XCHECK_EVERY"); v != "" {
				fmt.Sscanf(v, "%d", &s.XEvery)
			}
			m.Solver = s
			if len(chk.RecordStubs) > 0 {
				m.RecordStubs = map[string]bool{}
				for _, n := range chk.RecordStubs {
					m.RecordStubs[n] = true
				}
			}
			if err := m.InitRepo(initPkgs); err != nil {
				statsMu.Lock()
				toolErrors = append(toolErrors, err.Error())
				statsMu.Unlock()
				return
			}
			vmMu.Lock()
			if firstVM == nil {
				firstVM = m
			}
			vmMu.Unlock()
			for i := range jobs {
				c := cases[i]
				spec := vm.CaseSpec{ID: c.ID, Pkg: pkgPath(c.Pkg), Fn: c.Fn, Args: c.Args, MapOrder: c.MapOrder, MaxPaths: c.MaxPaths}
				if time.Now().After(deadline) {
					results[i] = caseOutcome{c, vm.CaseResult{Spec: spec, Truncated: "not explored: the check's time budget was used up before this case started",
						Inconclusive: map[string]int{}, AssertUnk: map[string]int{}}}
					continue
				}
				if left := time.Until(deadline); left < 15*time.Minute {
					spec.MaxTime = left + 30*time.Second
				}
				if spec.MaxTime == 0 {
					spec.MaxTime = 90 * time.Second
					if tier == "thorough" {
						spec.MaxTime = 15 * time.Minute
					}
				}
				m.SampleModels = nValidate
				if os.Getenv("VERIF_SLOW") != "" {
					fmt.Printf("START %s\n", c.ID)
				}
				res := m.RunCase(spec)
				if os.Getenv("VERIF_CASELOG") != "" {
					fmt.Fprintf(os.Stderr, "CASELOG paths=%d wall=%.1fs queries=%d %s\n", res.Paths, res.Wall.Seconds(), res.Solver.Queries, spec.ID)
				}
				if os.Getenv("VERIF_SLOW") != "" {
					fmt.Printf("END %s paths=%d wall=%s\n", c.ID, res.Paths, res.Wall)
				}
				results[i] = caseOutcome{c, res}
				// translator validation runs (concrete mode) on sampled path models
				for _, sm := range res.Samples {
					tc := time.Now()
					co := m.RunConcrete(spec, sm)
					if os.Getenv("VERIF_SLOW") != "" && time.Since(tc) > 2*time.Second {
						fmt.Printf("SLOWCONC %s %s %v\n", c.ID, time.Since(tc), sm)
					}
					concMu.Lock()
					concRuns = append(concRuns, concRec{c, sm, co})
					concMu.Unlock()
				}
			}
			statsMu.Lock()
			totalStats.AddStats(s.Stats)
			for _, n := range s.XNotes {
				toolErrors = append(toolErrors, "solver cross-check: "+n)
			}
			statsMu.Unlock()
		}()
	}
	wg.Wait()
	selfWG.Wait()
	toolErrors = append(toolErrors, selfBad...)
	modelValidated = selfN
	if os.Getenv("VERIF_SLOW") != "" {
		fmt.Printf("PHASE explore done at %.1fs\n", time.Since(t0).Seconds())
	}

	// ---- collect findings, write replays
	known := loadKnown()
	type pending struct {
		c      Case
		f      vm.Finding
		path   string
		expect string
	}
	var pend []pending
	byPkg := map[string][]string{}
	for _, co := range results {
		for _, f := range co.res.Findings {
			if f.Kind == "panic" && len(f.Stack) > 0 && isHarnessFunc(f.Stack[len(f.Stack)-1]) {
				// a panic raised by the harness's own code is a defect of the machinery, never a violation
				toolErrors = append(toolErrors, fmt.Sprintf("harness panic in %s (case %q): %s", f.Stack[len(f.Stack)-1], co.c.ID, firstLineOf(f.Msg)))
				continue
			}
			if f.Kind == "panic" && (!chk.PanicViolates || (chk.PanicFilter != nil && !chk.PanicFilter(f))) {
				continue
			}
			expect := f.ID
			if f.Kind == "panic" {
				expect = "panic"
			}
			if f.Kind == "hazard" || f.Kind == "completion" {
				expect = "any-native-failure"
			}
			rf := replayFile{Property: id, Harness: co.c.Fn, Package: co.c.Pkg, Args: co.c.Args, Values: f.Model, Expect: expect, Msg: f.Msg, Case: co.c.ID}
			b, _ := json.MarshalIndent(rf, "", " ")
			name := fmt.Sprintf("%s-%s-%s.json", co.c.Fn, hashStr(co.c.ID), hashStr(f.Kind+f.ID+fmt.Sprint(f.Model)))
			path := filepath.Join(replayDir, name)
			os.WriteFile(path, b, 0o644)
			pend = append(pend, pending{co.c, f, path, expect})
			byPkg[co.c.Pkg] = append(byPkg[co.c.Pkg], path)
		}
	}
	// ---- translator validation replays (kept in work dir, not in replays/)
	type concPending struct {
		rec  concRec
		path string
	}
	var cpend []concPending
	for i, cr := range concRuns {
		if cr.out.Error != "" {
			// the VM could not run this concretely: counts as not validated
			continue
		}
		rf := replayFile{Property: id, Harness: cr.c.Fn, Package: cr.c.Pkg, Args: cr.c.Args, Values: cr.values, Expect: "validation", Case: cr.c.ID}
		b, _ := json.Marshal(rf)
		path := filepath.Join(workDir, fmt.Sprintf("conc_%d.json", i))
		os.WriteFile(path, b, 0o644)
		cpend = append(cpend, concPending{cr, path})
		byPkg[cr.c.Pkg] = append(byPkg[cr.c.Pkg], path)
	}
	var native map[string]nativeOutcome
	if len(byPkg) > 0 && firstVM != nil {
		var nerrs []string
		if chk.Race {
			// findings are replayed one per process: a race on lazily initialised package state
			// can only be observed by the first run in a process
			native = map[string]nativeOutcome{}
			isFinding := map[string]bool{}
			for _, p := range pend {
				isFinding[p.path] = true
			}
			rest := map[string][]string{}
			for dir, paths := range byPkg {
				for _, pth := range paths {
					if isFinding[pth] {
						o, e := runNative(ld, firstVM, chk, workDir, map[string][]string{dir: {pth}})
						for k, v := range o {
							native[k] = v
						}
						nerrs = append(nerrs, e...)
					} else {
						rest[dir] = append(rest[dir], pth)
					}
				}
			}
			o, e := runNative(ld, firstVM, chk, workDir, rest)
			for k, v := range o {
				native[k] = v
			}
			nerrs = append(nerrs, e...)
		} else {
			native, nerrs = runNative(ld, firstVM, chk, workDir, byPkg)
		}
		toolErrors = append(toolErrors, nerrs...)
	}
	if os.Getenv("VERIF_SLOW") != "" {
		fmt.Printf("PHASE native done at %.1fs\n", time.Since(t0).Seconds())
	}
	validated, mismatches := 0, 0
	for _, cp := range cpend {
		no, ok := native[cp.path]
		if !ok {
			continue
		}
		if msg := compareConc(cp.rec.out, no); msg != "" {
			mismatches++
			keep := filepath.Join(replayDir, "translator-mismatch-"+hashStr(cp.rec.c.ID+fmt.Sprint(cp.rec.values))+".json")
			b, _ := os.ReadFile(cp.path)
			os.WriteFile(keep, b, 0o644)
			toolErrors = append(toolErrors, fmt.Sprintf("translator validation mismatch case=%q: %s (replay %s)", cp.rec.c.ID, msg, keep))
		} else {
			validated++
		}
	}

	// ---- classify findings
	violations := 0
	hazardsBenign = 0
	completionsBenign = 0
	knownHit := map[string]bool{}
	var samplesViol []interface{}
	for _, p := range pend {
		no, ok := native[p.path]
		reproduced := false
		if ok {
			if p.expect == "any-native-failure" {
				// aliasing hazard: the VM keeps value semantics, the native run decides
				reproduced = no.Invalid == "" && (no.Panic != "" || len(no.Failed) > 0)
				if reproduced {
					p.f.ID = p.f.ID + " -> native run fails " + strings.Join(no.Failed, ",") + firstLineOf(no.Panic)
				}
			} else if p.expect == "panic" {
				reproduced = no.Panic != ""
			} else {
				for _, fid := range no.Failed {
					if fid == p.expect {
						reproduced = true
					}
				}
			}
		}
		if !reproduced {
			why := "no native outcome"
			if ok {
				why = fmt.Sprintf("native run: failed=%v panic=%q invalid=%q", no.Failed, firstLineOf(no.Panic), no.Invalid)
			}
			if p.f.Kind == "hazard" {
				hazardsBenign++
				os.Remove(p.path)
				continue
			}
			if p.f.Kind == "completion" {
				completionsBenign++
				if os.Getenv("VERIF_KEEP_COMPLETIONS") != "" {
					fmt.Println("COMPLETION benign:", p.path, why)
					continue
				}
				os.Remove(p.path)
				continue
			}
			toolErrors = append(toolErrors, fmt.Sprintf("model did not reproduce natively (encoding or stub defect, not reported as violation): case=%q %s %s: %s replay=%s", p.c.ID, p.f.Kind, p.f.ID, why, p.path))
			continue
		}
		matched := false
		for _, k := range known {
			if k.matches(id, p.c.Fn, p.c.ID, p.f.ID, p.f.Regions) {
				matched = true
				key := k.What
				if !knownHit[key] {
					knownHit[key] = true
					fmt.Printf("KNOWN-FINDING: property=%s %s\n", id, k.What)
				}
				os.Remove(p.path)
				break
			}
		}
		if matched {
			continue
		}
		violations++
		fmt.Printf("VIOLATION property=%s replay=%s\n", id, p.path)
		fmt.Printf("  case=%q %s=%s %s\n  model=%s\n", p.c.ID, p.f.Kind, p.f.ID, firstLineOf(p.f.Msg), compactModel(p.f.Model))
		samplesViol = append(samplesViol, map[string]interface{}{"case": p.c.ID, "kind": p.f.Kind, "id": p.f.ID, "model": p.f.Model, "replay": p.path})
	}

	knownList := []string{}
	for k := range knownHit {
		knownList = append(knownList, k)
	}
	sort.Strings(knownList)
	writeEvidence(chk, tier, seed, t0, results, &totalStats, toolErrors, staleAnchors, validated, knownList, samplesViol, violations)
	for _, e := range toolErrors {
		fmt.Println("TOOL-NOTE:", e)
	}
	summarize(chk, results, &totalStats, validated, mismatches, time.Since(t0))
	os.RemoveAll(workDir)
	if violations > 0 {
		return 1
	}
	return 0
}

func isHarnessFunc(fn string) bool {
	i := strings.LastIndex(fn, ".")
	name := fn
	if i >= 0 {
		name = fn[i+1:]
	}
	name = strings.TrimPrefix(name, "(")
	// also methods of harness types, e.g. (*.../parser.zzTok).GetStop
	return strings.HasPrefix(name, "zz") || strings.HasPrefix(name, "ZZ") || strings.Contains(fn, "/zzvrt.") || strings.Contains(fn, ".zz") || strings.Contains(fn, ".ZZ")
}

func firstLineOf(s string) string {
	if i := strings.IndexByte(s, '\n'); i >= 0 {
		return s[:i]
	}
	return s
}

func compactModel(m map[string]string) string {
	ks := make([]string, 0, len(m))
	for k := range m {
		if strings.HasPrefix(k, "maporder_") && m[k] == "0" {
			continue
		}
		ks = append(ks, k)
	}
	sort.Strings(ks)
	var sb strings.Builder
	for i, k := range ks {
		if i > 0 {
			sb.WriteString(" ")
		}
		sb.WriteString(k + "=" + m[k])
	}
	return sb.String()
}

func compareConc(v vm.ConcOutcome, n nativeOutcome) string {
	if (v.Invalid != "") != (n.Invalid != "") {
		return fmt.Sprintf("assumption status differs: vm=%q native=%q", v.Invalid, n.Invalid)
	}
	if v.Invalid != "" {
		return ""
	}
	if (v.Panic != "") != (n.Panic != "") {
		return fmt.Sprintf("panic differs: vm=%q native=%q", firstLineOf(v.Panic), firstLineOf(n.Panic))
	}
	if v.Panic != "" {
		return ""
	}
	a, b := append([]string{}, v.Failed...), append([]string{}, n.Failed...)
	sort.Strings(a)
	sort.Strings(b)
	if strings.Join(a, "|") != strings.Join(b, "|") {
		return fmt.Sprintf("failed assertions differ: vm=%v native=%v", a, b)
	}
	if strings.Join(v.Notes, "\n") != strings.Join(n.Notes, "\n") {
		return fmt.Sprintf("notes differ: vm=%v native=%v", v.Notes, n.Notes)
	}
	if strings.Join(v.Reached, "|") != strings.Join(n.Reached, "|") {
		return fmt.Sprintf("reach markers differ: vm=%v native=%v", v.Reached, n.Reached)
	}
	return ""
}

func summarize(chk *Check, results []caseOutcome, st *smt.Stats, validated, mismatches int, wall time.Duration) {
	paths, incon, panics := 0, 0, 0
	for _, r := range results {
		paths += r.res.Paths
		panics += r.res.PanicPaths
		for _, n := range r.res.Inconclusive {
			incon += n
		}
	}
	if os.Getenv("VERIF_SLOW") != "" {
		type sc struct {
			id string
			w  time.Duration
			q  int
		}
		var all []sc
		for _, r := range results {
			all = append(all, sc{r.c.ID, r.res.Wall, r.res.Solver.Queries})
		}
		for _, r := range results {
			for msg, n := range r.res.Inconclusive {
				fmt.Printf("INCONCLUSIVE-CASE %q: %s (x%d)\n", r.c.ID, msg, n)
			}
		}
		sort.Slice(all, func(i, j int) bool { return all[i].w > all[j].w })
		for i := 0; i < len(all) && i < 12; i++ {
			fmt.Printf("SLOW %s wall=%s queries=%d\n", all[i].id, all[i].w, all[i].q)
		}
	}
	fmt.Printf("SUMMARY property=%s cases=%d paths=%d panic_paths=%d inconclusive_paths=%d queries=%d solver_s=%.1f validated=%d mismatches=%d wall_s=%.1f\n",
		chk.ID, len(results), paths, panics, incon, st.Queries, st.Time.Seconds(), validated, mismatches, wall.Seconds())
}

func writeEvidence(chk *Check, tier string, seed int, t0 time.Time, results []caseOutcome, st *smt.Stats,
	toolErrors, stale []string, validated int, knownHit []string, violSamples []interface{}, violations int) {
	cov := map[string]interface{}{}
	paths, decisions, incon, panics, aborted, steps, discharged, unk := 0, 0, 0, 0, 0, 0, 0, 0
	fnSet := map[string]bool{}
	inconMsgs := map[string]int{}
	reached := map[string]int{}
	asserted := map[string]int{}
	truncated := []string{}
	var samples []interface{}
	families := map[string]int{}
	nontrivial := 0
	for i, r := range results {
		paths += r.res.Paths
		decisions += r.res.Decisions
		panics += r.res.PanicPaths
		aborted += r.res.AbortedPaths
		steps += r.res.Steps
		discharged += r.res.Discharged
		unk += r.res.Unknowns
		for k, n := range r.res.Inconclusive {
			incon += n
			inconMsgs[k] += n
		}
		for k, n := range r.res.Reached {
			reached[k] += n
		}
		for k, n := range r.res.Asserted {
			asserted[k] += n
		}
		for k, n := range r.res.AssertUnk {
			inconMsgs["solver unknown on assertion "+k] += n
		}
		for f := range r.res.Functions {
			fnSet[f] = true
		}
		if r.res.Truncated != "" {
			truncated = append(truncated, r.c.ID+": "+r.res.Truncated)
		}
		families[r.c.Tag]++
		if r.res.Paths > 1 || r.res.Discharged > 0 {
			nontrivial++
		}
		if i < 3 || (i%97 == 0 && len(samples) < 12) {
			samples = append(samples, map[string]interface{}{
				"case": r.c.ID, "harness": r.c.Fn, "args": r.c.Args, "paths": r.res.Paths, "decisions": r.res.Decisions,
				"assertions_discharged": r.res.Discharged, "queries": r.res.Solver.Queries, "findings": len(r.res.Findings),
			})
		}
	}
	samples = append(samples, violSamples...)
	if len(samples) == 0 {
		samples = append(samples, map[string]interface{}{"note": "no case could be run", "errors": toolErrors})
	}
	fns := make([]string, 0, len(fnSet))
	for f := range fnSet {
		if strings.Contains(f, vm.RepoModule) && !strings.Contains(f, "zzvrt") && !isHarnessFunc(f) && !strings.Contains(f, ".zz") && !strings.Contains(f, "$") {
			fns = append(fns, strings.ReplaceAll(f, vm.RepoModule+"/", ""))
		}
	}
	sort.Strings(fns)
	states := paths
	if states < 1 {
		states = 1
	}
	trans := decisions
	if trans < 1 {
		trans = 1
	}
	cov["states"] = states
	cov["transitions"] = trans
	cov["traces_validated_against_impl"] = validated
	cov["samples"] = samples
	cov["cases"] = len(results)
	cov["cases_nontrivial"] = nontrivial
	cov["case_families"] = families
	cov["symbolic_paths"] = paths
	cov["branch_decisions"] = decisions
	cov["vm_steps"] = steps
	cov["panic_paths"] = panics
	cov["assumption_aborted_paths"] = aborted
	cov["assertions_checked"] = asserted
	cov["assertion_queries_discharged_unsat"] = discharged
	cov["reach_witnesses"] = reached
	cov["inconclusive_paths"] = incon
	cov["inconclusive_reasons"] = inconMsgs
	cov["truncated_cases"] = truncated
	notStarted := 0
	for _, r := range results {
		if strings.HasPrefix(r.res.Truncated, "not explored") {
			notStarted++
		}
	}
	cov["cases_not_started_time_budget"] = notStarted
	if len(truncated) > 40 {
		cov["truncated_cases"] = append(truncated[:40], fmt.Sprintf("... and %d more", len(truncated)-40))
	}
	cov["functions_encoded"] = fns
	cov["functions_encoded_count"] = len(fns)
	cov["functions_executed_including_library_and_harness"] = len(fnSet)
	cov["bounds"] = chk.Bounds[tier]
	cov["outside_claim"] = chk.Outside
	cov["stubs"] = chk.Stubs
	cov["stale_anchors"] = stale
	cov["tool_errors"] = toolErrors
	cov["known_findings_hit"] = knownHit
	cov["model_validation_comparisons"] = modelValidated
	cov["alias_hazards_replayed_without_native_failure"] = hazardsBenign
	cov["inconclusive_paths_completed_natively_without_failure"] = completionsBenign
	cov["exhaustive"] = false
	cov["explanation"] = "Bounded symbolic execution of the real code (go/ssa of /repo's working tree) with an SMT solver deciding every branch and assertion; 'states' = symbolic paths completed, 'transitions' = branch decisions resolved by the solver."
	if st != nil {
		cov["queries_discharged"] = st.Queries
		cov["queries_sat"] = st.Sat
		cov["queries_unsat"] = st.Unsat
		cov["queries_unknown"] = st.Unknown
		cov["solver_errors"] = st.Errors
		cov["solver_time_s"] = st.Time.Seconds()
		cov["solver_max_query_s"] = st.MaxQuery.Seconds()
		cov["solvers"] = []string{"z3 4.8.12 (z3 -in, incremental push/pop, 8 s per-query limit)", "cvc5 1.0.3 (one-shot fallback when z3 answers unknown, 30 s limit)"}
		cov["fallback_solver_queries"] = st.Fallbacks
		cov["solvers"] = append(cov["solvers"].([]string), "second opinion on a sample of z3's unsat verdicts, one-shot, alternating cvc5 1.0.3 and z3 5.1.0 (30 s limit); a sat answer there overrides the verdict and its model is replayed")
		cov["unsat_verdicts_cross_checked"] = st.XChecked
		cov["cross_check_agree"] = st.XAgree
		cov["cross_check_disagree"] = st.XDisagree
		cov["cross_check_no_answer"] = st.XUnknown
		cov["cross_check_time_s"] = st.XTime.Seconds()
	}
	ev := Evidence{PropertyID: chk.ID, Tier: tier, Seed: seed, Level: "model_checking", Coverage: cov,
		Assumptions: chk.Assumptions, WallS: time.Since(t0).Seconds(), Violations: violations}
	b, _ := json.MarshalIndent(ev, "", " ")
	os.MkdirAll(OutDir+"/evidence", 0o755)
	os.WriteFile(OutDir+"/evidence/"+chk.ID+".json", b, 0o644)
}

// Replay runs one stored counterexample natively and reports whether it reproduces.
func Replay(path string) int {
	b, err := os.ReadFile(path)
	if err != nil {
		fmt.Println("replay:", err)
		return 2
	}
	var rf replayFile
	if err := json.Unmarshal(b, &rf); err != nil {
		fmt.Println("replay:", err)
		return 2
	}
	chk := Registry[rf.Property]
	if chk == nil {
		fmt.Println("replay: unknown property", rf.Property)
		return 2
	}
	files := append([]vm.HarnessFile{zzvrtFile}, chk.Files...)
	patterns := []string{pkgPath("internal/zzvrt")}
	for _, d := range chk.LoadPkgs {
		patterns = append(patterns, pkgPath(d))
	}
	ld, err := vm.Load(RepoDir, files, patterns)
	if err != nil {
		fmt.Println("replay: load:", err)
		return 2
	}
	m := vm.New(ld.Prog, ld.Pkgs, vm.RepoModule)
	workDir := filepath.Join(OutDir, "work", "replay-"+hashStr(path))
	os.MkdirAll(workDir, 0o755)
	defer os.RemoveAll(workDir)
	abs, _ := filepath.Abs(path)
	out, errs := runNative(ld, m, chk, workDir, map[string][]string{rf.Package: {abs}})
	for _, e := range errs {
		fmt.Println("replay:", e)
	}
	o, ok := out[abs]
	if !ok {
		return 2
	}
	ob, _ := json.MarshalIndent(o, "", " ")
	fmt.Printf("harness=%s args=%q values=%v\nnative outcome: %s\n", rf.Harness, rf.Args, rf.Values, ob)
	rep := false
	if rf.Expect == "any-native-failure" {
		rep = o.Invalid == "" && (o.Panic != "" || len(o.Failed) > 0)
	} else if rf.Expect == "panic" {
		rep = o.Panic != ""
	} else {
		for _, f := range o.Failed {
			if f == rf.Expect {
				rep = true
			}
		}
	}
	if rep {
		fmt.Printf("REPRODUCED property=%s expect=%s\n", rf.Property, rf.Expect)
		return 1
	}
	fmt.Printf("NOT-REPRODUCED property=%s expect=%s\n", rf.Property, rf.Expect)
	return 0
}

package checks

import (
	"fmt"
	"regexp"
	"strings"
)

func c12Cases(tier string) []Case {
	var cases []Case
	// (a) the API families, with only panic-freedom, outcome class and atomicity switched on
	reuse := []string{"C01", "C03", "C05", "C08"}
	for _, id := range reuse {
		src := Registry[id].Cases(tier)
		step := 4
		if tier == "thorough" {
			step = 1
		}
		for i := 0; i < len(src); i += step {
			c := src[i]
			if c.Fn != "ZZAPI" {
				continue
			}
			cases = append(cases, Case{ID: "C12 api " + c.ID, Pkg: "", Fn: "ZZAPI", Args: []string{"C12", c.Args[1], c.Args[2]}, Tag: "api-families"})
		}
	}
	// (b) arbitrary variable text per declared type
	types := map[string]string{
		"monetary": "InvalidMonetaryLiteral|InvalidNumberLiteral",
		"number":   "InvalidNumberLiteral",
		"portion":  "BadPortionParsingErr",
		"account":  "InvalidAccountName",
		"asset":    "",
		"string":   "",
	}
	maxLen := 3
	if tier == "thorough" {
		maxLen = 5
	}
	for _, t := range []string{"monetary", "number", "portion", "account", "asset", "string"} {
		top := maxLen
		if t == "portion" && tier != "thorough" {
			top = 4 // "1/00", "1.5%" need four bytes
		}
		for n := 0; n <= top; n++ {
			script := "vars {\n  " + t + " $x\n}\nset_tx_meta(\"k\", $x)"
			cases = append(cases, Case{ID: fmt.Sprintf("C12 vartext %s len=%d", t, n), Pkg: "", Fn: "ZZC12Var", Args: []string{script, "x", fmt.Sprint(n), types[t]}, Tag: "variable-text"})
		}
	}
	// monetary text that is long enough to contain "A n" forms, used as a sent amount
	for n := 3; n <= maxLen+1; n++ {
		script := "vars {\n  monetary $x\n}\nsend $x (\n source = @world\n destination = @d\n)"
		cases = append(cases, Case{ID: fmt.Sprintf("C12 vartext monetary-sent len=%d", n), Pkg: "", Fn: "ZZC12Var", Args: []string{script, "x", fmt.Sprint(n), "InvalidMonetaryLiteral|InvalidNumberLiteral|NegativeAmountErr"}, Tag: "variable-text"})
	}
	// (c) one trigger per error class
	send := func(amt, src, dst string) string {
		return "send " + amt + " (\n  source = " + src + "\n  destination = " + dst + "\n)"
	}
	ex := func(tag, script, spec, drop, expect string) {
		cases = append(cases, Case{ID: "C12 " + tag + " " + strings.ReplaceAll(script, "\n", " "), Pkg: "", Fn: "ZZC12Expect", Args: []string{script, spec, drop, expect}, Tag: "typed-cause"})
	}
	ex("missing-variable", "vars {\n number $n\n}\nset_tx_meta(\"k\", $n)", "n=num", "n", "MissingVariableErr")
	ex("unknown-type", "vars {\n foo $n\n}\nset_tx_meta(\"k\", 1)", "n=numk:1", "", "InvalidTypeErr")
	ex("unknown-function", "foo(1)", "", "", "UnboundFunctionErr")
	ex("unknown-origin", "vars {\n number $n = foo(1)\n}\nset_tx_meta(\"k\", $n)", "", "", "UnboundFunctionErr")
	ex("arity", "set_tx_meta(\"k\")", "", "", "BadArityErr")
	ex("arity", "set_tx_meta(\"k\", 1, 2)", "", "", "BadArityErr")
	ex("arity", "set_account_meta(@a, \"k\")", "", "", "BadArityErr")
	ex("arity-origin", "vars {\n monetary $m = balance(@a)\n}\nset_tx_meta(\"k\", $m)", "", "", "BadArityErr")
	ex("arg-type", "set_tx_meta(42, 1)", "", "", "TypeError")
	ex("arg-type", "set_account_meta(\"a\", \"k\", 1)", "", "", "TypeError")
	ex("unbound-variable", "set_tx_meta(\"k\", $nope)", "", "", "UnboundVariableErr")
	ex("type-error", "vars {\n number $n\n}\n"+send("$n", "@a", "@d"), "n=num", "", "TypeError")
	ex("type-error", "vars {\n account $x\n}\n"+send("[USD 1]", "@world", "{ max $x to @d remaining to @e }"), "x=acc:a", "", "TypeError")
	ex("type-error", "vars {\n string $s\n}\n"+send("[USD 1]", "$s", "@d"), "s=str:a", "", "TypeError")
	ex("type-error", "vars {\n number $n\n}\n"+send("[USD 2]", "{ $n from @a remaining from @b }", "@d"), "n=num", "", "TypeError")
	ex("mismatched-asset", "vars {\n monetary $c\n}\n"+send("[USD 10]", "max $c from @a", "@d"), "c=mon:EUR", "", "MismatchedCurrencyError")
	ex("mismatched-asset", "vars {\n monetary $c\n}\n"+send("[USD 10]", "@world", "{ max $c to @d remaining to @e }"), "c=mon:EUR", "", "MismatchedCurrencyError")
	ex("mismatched-asset", "vars {\n monetary $c\n}\n"+send("[USD 10]", "@a allowing overdraft up to $c", "@d"), "c=mon:EUR", "", "MismatchedCurrencyError")
	ex("mismatched-asset-infix", "vars {\n monetary $c\n monetary $d\n}\n"+send("$c + $d", "@world", "@d"), "c=mon:EUR;d=mon:USD", "", "MismatchedCurrencyError")
	ex("negative-amount", "vars {\n monetary $n\n}\n"+send("$n", "@world", "@d"), "n=mon:USD", "", "|NegativeAmountErr")
	ex("negative-save", "vars {\n monetary $n\n}\nsave $n from @a", "n=mon:USD", "", "|NegativeAmountErr")
	ex("missing-funds", "vars {\n monetary $n\n}\n"+send("$n", "@a", "@d"), "n=mon:USD", "", "|NegativeAmountErr|MissingFundsErr")
	ex("bad-allotment-sum", send("[USD 10]", "@world", "{ 1/2 to @d 1/3 to @e }"), "", "", "InvalidAllotmentSum")
	ex("bad-allotment-sum", "vars {\n portion $p\n}\n"+send("[USD 10]", "{ $p from @a 1/2 from @b }", "@d"), "p=portion:1/3", "", "InvalidAllotmentSum")
	ex("sendall-unbounded", sendAll("USD", "@world", "@d"), "", "", "InvalidUnboundedInSendAll")
	ex("sendall-unbounded", sendAll("USD", "{ @a @b allowing unbounded overdraft }", "@d"), "", "", "InvalidUnboundedInSendAll")
	ex("sendall-allotment", sendAll("USD", "{ 1/2 from @a 1/2 from @b }", "@d"), "", "", "InvalidAllotmentInSendAll")
	ex("metadata-not-found", "vars {\n account $x = meta(@a, \"k\")\n}\n"+send("[USD 1]", "$x", "@d"), "", "", "MetadataNotFound")
	ex("metadata-not-found", "vars {\n string $x = meta(@a, \"k\")\n}\nset_tx_meta(\"copied\", $x)", "_meta=a.j:other", "", "MetadataNotFound")
	ex("metadata-not-found", "vars {\n number $x = meta(@a, \"k\")\n}\nset_tx_meta(\"copied\", $x)", "_meta=a.j:1,b.k:2", "", "MetadataNotFound")
	ex("sendall-bad-bound", "vars {\n monetary $c\n}\n"+sendAll("USD", "@a allowing overdraft up to $c", "@d"), "c=mon:EUR", "", "MismatchedCurrencyError")
	ex("sendall-bad-bound", "vars {\n number $c\n}\n"+sendAll("USD", "{ @b @a allowing overdraft up to $c }", "@d"), "c=num", "", "TypeError")
	ex("sendall-bad-bound", sendAll("USD", "max [USD 5] from @a allowing overdraft up to $ghost", "@d"), "", "", "UnboundVariableErr")
	ex("sendall-bad-cap", "vars {\n monetary $c\n}\n"+sendAll("USD", "max $c from @a", "{ max $c to @d remaining kept }"), "c=mon:EUR", "", "MismatchedCurrencyError")
	ex("meta-origin-bad-text", "vars {\n number $x = meta(@a, \"k\")\n}\nset_tx_meta(\"count\", $x)", "_meta=a.k:12abc", "", "InvalidNumberLiteral")
	ex("meta-origin-bad-text", "vars {\n portion $x = meta(@a, \"k\")\n}\n"+send("[USD 10]", "@world", "{ $x to @d remaining to @e }"), "_meta=a.k:twelve percent", "", "BadPortionParsingErr")
	ex("meta-origin-bad-text", "vars {\n monetary $x = meta(@a, \"k\")\n}\n"+send("$x", "@world", "@d"), "_meta=a.k:USD/2", "", "InvalidMonetaryLiteral")
	ex("meta-origin-bad-text", "vars {\n account $x = meta(@a, \"k\")\n}\n"+send("[USD 1]", "@world", "$x"), "_meta=a.k:not an account", "", "InvalidAccountName")
	ex("same-key-twice", "set_tx_meta(\"k\", 1)\nset_tx_meta(\"k\", 2)\nset_tx_meta(\"k\", 2)", "", "", "")
	ex("same-key-twice", "vars {\n monetary $m\n portion $p\n}\nset_tx_meta(\"k\", $m)\nset_tx_meta(\"k\", $m)\nset_tx_meta(\"p\", $p)\nset_tx_meta(\"p\", 1/2)\nset_account_meta(@a, \"k\", $m)\nset_account_meta(@a, \"k\", $m)", "m=mon:USD;p=portion:1/2", "", "")
	ex("experimental-flag", "vars {\n monetary $o = overdraft(@a, USD)\n}\n"+send("$o", "@world", "@d"), "", "", "ExperimentalFeature")
	ex("negative-balance", "vars {\n monetary $m = balance(@a, USD)\n}\n"+send("$m", "@world", "@d"), "", "", "|NegativeBalanceError")
	ex("zero-denominator", send("[USD 10]", "@world", "{ 1/0 to @d remaining to @e }"), "", "", "BadPortionParsingErr|InvalidAllotmentSum|other")
	ex("zero-denominator", "set_tx_meta(\"k\", 0/0)", "", "", "BadPortionParsingErr|other")
	ex("huge-denominator", send("[USD 10]", "@world", "{ 1/18446744073709551616 to @a remaining to @b }"), "", "", "")
	ex("huge-denominator", send("[USD 10]", "{ 0.00000000000000000000000000000000000000000000000000000000000001% from @world remaining from @world }", "@d"), "", "", "")
	ex("huge-denominator", send("[USD 10]", "@world", "{ 1/9223372036854775808 to @a 9223372036854775807/9223372036854775808 to @b }"), "", "", "")
	ex("huge-denominator", "set_tx_meta(\"p\", 3/36893488147419103232)", "", "", "")
	ex("huge-numbers", "vars {\n number $n\n number $m\n}\nset_tx_meta(\"k\", $n + $m - $n)", "n=num;m=num", "", "")
	// (c') every ill-typed script of C17's edit list, run as it is (values of the declared types):
	// whatever the checker says about it, the run returns a result or a typed error, never a panic
	declRe := regexp.MustCompile(`(?m)^\s*(number|monetary|account|asset|portion|string) \$(\w+)\s*$`)
	kindOf := map[string]string{"number": "num", "monetary": "mon:USD", "account": "acc:a", "asset": "asset:USD", "portion": "portion:1/3", "string": "str:text"}
	for _, t := range brokenTemplates {
		var spec []string
		for _, m := range declRe.FindAllStringSubmatch(t, -1) {
			spec = append(spec, m[2]+"="+kindOf[m[1]])
		}
		ex("ill-typed-script", t, strings.Join(spec, ";"), "", "*")
	}
	// (d) store faults at every call
	two := c10Case("meta-origin x2", []string{`account $x = meta(@a, "k")`, `account $y = meta(@b, "k")`}, []string{send("%N", "{ $x $y }", "@d")}, nil, "a.k=b,b.k=a", "")
	cases = append(cases, Case{ID: "C12 store-fault " + two.ID[4:], Pkg: "", Fn: "ZZC12Fault", Args: two.Args, Tag: "store-fault"})
	// many accounts in one query (a store may be asked in several calls): the accounts are unknown
	// to the store, so their balances are concrete zeros and only the amount is symbolic
	for _, n := range []int{20, 40} {
		var names, srcs []string
		for i := 1; i <= n; i++ {
			names = append(names, fmt.Sprintf("u%02d", i))
			srcs = append(srcs, fmt.Sprintf("@u%02d", i))
		}
		many := c10Case("many-accounts", nil, []string{send("%N", "{ "+strings.Join(srcs, " ")+" @world }", "@d")}, map[string][2]string{"_omit": {"", strings.Join(names, ",")}}, "", "")
		cases = append(cases, Case{ID: "C12 store-fault " + many.ID[4:], Pkg: "", Fn: "ZZC12Fault", Args: many.Args, Tag: "store-fault"})
	}
	for _, c := range c10Cases(tier) {
		if tier != "thorough" && strings.HasPrefix(c.Tag, "generated-source-shapes") {
			continue
		}
		cases = append(cases, Case{ID: "C12 store-fault " + c.ID[4:], Pkg: "", Fn: "ZZC12Fault", Args: c.Args, Tag: "store-fault"})
	}
	// (e) nil maps from the store
	for _, s := range []string{send("%N", "{ @a @b }", "@d"), sendAll("USD", "@a", "@d"), "save %N from @a"} {
		script, spec := instantiate([]string{s}, "USD", nil)
		cases = append(cases, Case{ID: "C12 nil-store-maps " + strings.ReplaceAll(script, "\n", " "), Pkg: "", Fn: "ZZC12Nil", Args: []string{script, spec}, Tag: "nil-store-maps"})
	}
	return cases
}

func init() {
	Register(&Check{
		ID: "C12", SelfTest: true, Title: "never panics, fails atomically with a typed error", PanicViolates: true,
		Files: apiFiles, LoadPkgs: apiLoad, InitPkgs: apiInit,
		Cases: c12Cases,
		Bounds: stdBounds(
			map[string]interface{}{"api_families": "every 4th template of C01/C03/C05/C08", "variable_text": "0..3 arbitrary bytes per declared type (4 for a sent monetary)", "error_classes": "one or more triggers per class", "store_faults": "failure injected at every store call of the C10 templates"},
			map[string]interface{}{"api_families": "all templates of C01/C03/C05/C08 (thorough)", "variable_text": "0..5 arbitrary bytes per declared type", "store_faults": "every store call of the C10 thorough templates"}),
		Assumptions: append([]string{"every reachable Go panic site (explicit panic, nil dereference, index/slice bounds, nil-map write, failed type assertion, division by zero, big.Rat zero denominator) on an explored path is a violation"}, apiAssumptions...),
		Stubs:       append([]string{"regexp: symbolic leftmost-first matcher over the compiled program (anchored, ASCII classes)", "big.Int/Rat SetString models (sign, digits, base-0 prefixes, '/', '.')"}, apiStubs...),
		Outside:     append([]string{"variable texts longer than the stated byte count", "scripts that do not parse"}, apiOutside...),
	})
}

package checks

import (
	"github.com/formancehq/numscript/zzverif/vm"
)

var apiFiles = []vm.HarnessFile{hf("", "zz_verif_lib.go"), hf("", "zz_verif_api.go")}
var apiLoad = []string{"", "internal/interpreter"}
var apiInit = []string{""}

var apiAssumptions = []string{
	"balances, amounts, caps and overdraft limits are arbitrary mathematical integers (any sign, unbounded); overdraft limits are assumed >= 0",
	"math/big Int/Rat operations are exact (modelled as SMT integer terms; Rat as numerator/denominator with exact gcd normalisation)",
	"the store is the repo's StaticStore holding one entry per (account, asset) mentioned in the script",
	"scripts are parsed natively by the real parser (ANTLR is outside the encoding); the interpreter runs symbolically on the imported AST",
}
var apiStubs = []string{
	"math/big.Int {NewInt Add Sub Neg Set Cmp Div SetString String}", "math/big.Rat {NewRat SetFrac SetInt Add Sub Mul Cmp Num Denom}",
	"strings.Split", "fmt.Sprintf (%s %d %v)", "regexp (native, concrete text only)", "parser.Parse (native, result imported by reflection)",
}

func init() {
	Register(&Check{
		ID: "C03", Title: "fixed-amount send is exact or fails atomically",
		Files: apiFiles, LoadPkgs: apiLoad, InitPkgs: apiInit,
		Cases: func(tier string) []Case {
			var cases []Case
			accs := []string{"a", "b"}
			var srcs []string
			o := srcOpts{world: true, unbounded: true, caps: true, allot: true}
			srcs = append(srcs, srcTrees(1, 1, accs, o)...)
			srcs = append(srcs, srcTrees(2, 1, accs, o)...)
			dsts := dstTrees(1, true, false, true)
			if tier == "thorough" {
				srcs = append(srcs, thin(srcTrees(3, 2, accs, o), 400)...)
				dsts = dstTrees(2, true, true, true)
			} else {
				srcs = thin(srcs, 40)
				srcs = append(srcs, "{ @a @b @a }", "{ max %C from { @a @b } @a }", "{ @a allowing overdraft up to %K { 1/2 from @a 1/2 from @b } }")
			}
			for i, s := range srcs {
				// every source with a plain destination, a rotating richer destination
				cases = append(cases, apiCase("C03", "send-fixed/plain-dest", []string{sendFixed("USD", s, "@d")}, nil))
				d := dsts[1+i%(len(dsts)-1)]
				cases = append(cases, apiCase("C03", "send-fixed/rich-dest", []string{sendFixed("USD", s, d)}, nil))
			}
			if tier == "thorough" {
				for _, d := range dsts {
					cases = append(cases, apiCase("C03", "send-fixed/world-src", []string{sendFixed("USD", "@world", d)}, nil))
					cases = append(cases, apiCase("C03", "send-fixed/two-src", []string{sendFixed("USD", "{ @a @b }", d)}, nil))
				}
			}
			return cases
		},
		Bounds: map[string]map[string]interface{}{
			"quick":    {"statements": 1, "source_leaves": "<=3", "source_depth": "<=2", "destination_clauses": "<=2 (1 cap + remaining), kept anywhere, 2-3 way allotments", "amounts": "unbounded integers"},
			"thorough": {"statements": 1, "source_leaves": "<=3 (400 sampled 3-leaf trees)", "source_depth": "<=2", "destination_clauses": "<=3, nested depth 2", "amounts": "unbounded integers"},
		},
		Assumptions: apiAssumptions, Stubs: apiStubs,
		Outside: []string{"scripts outside the template family (more leaves, deeper nesting, more than 3 accounts / 1 asset per statement)", "literal (non-variable) amounts: the parser's NumberLiteral is a machine int and is covered in C14"},
	})
}

package checks

import (
	"fmt"
	"strings"

	"github.com/formancehq/numscript/zzverif/vm"
)

var apiFiles = []vm.HarnessFile{hf("", "zz_verif_lib.go"), hf("", "zz_verif_api.go"), hf("", "zz_verif_c10.go"), hf("", "zz_verif_c11.go"), hf("", "zz_verif_c12.go")}
var apiLoad = []string{"", "internal/interpreter"}
var apiInit = []string{""}

var apiAssumptions = []string{
	"balances, amounts, caps and overdraft limits are arbitrary mathematical integers (any sign, unbounded); overdraft limits are assumed >= 0",
	"math/big Int/Rat operations are exact (modelled as SMT integer terms; Rat as numerator/denominator with exact gcd normalisation)",
	"the store is the repo's StaticStore holding one entry per (account, asset) mentioned in the script",
	"scripts are parsed natively by the real parser (ANTLR is outside the encoding); the interpreter runs symbolically on the imported AST",
}
var apiStubs = []string{
	"math/big.Int {NewInt Add Sub Neg Set Cmp Div SetString String}", "math/big.Rat {NewRat SetFrac SetInt Add Sub Mul Cmp Num Denom}",
	"strings.Split", "fmt.Sprintf (%s %d %v)", "regexp (native, concrete text only)", "parser.Parse (native, result imported by reflection)",
}

func init() {
	Register(&Check{
		ID: "C03", Title: "fixed-amount send is exact or fails atomically",
		Files: apiFiles, LoadPkgs: apiLoad, InitPkgs: apiInit,
		Cases: func(tier string) []Case {
			var cases []Case
			accs := []string{"a", "b"}
			var srcs []string
			o := srcOpts{world: true, unbounded: true, caps: true, allot: true}
			srcs = append(srcs, srcTrees(1, 1, accs, o)...)
			srcs = append(srcs, srcTrees(2, 1, accs, o)...)
			dsts := dstTrees(1, true, false, true)
			if tier == "thorough" {
				srcs = append(srcs, srcTrees(3, 2, accs, o)...)
				srcs = append(srcs, thin(srcTrees(4, 3, accs, o), 200)...)
				dsts = dstTrees(2, true, true, true)
			} else {
				srcs = thin(srcs, 40)
				srcs = append(srcs, "{ @a @b }", "{ @a @b @c }", "{ @a @b @a }", "{ max %C from @a max %C from @a @a @b }", "{ 1/5 from @a 3/10 from @a remaining from @a }", "{ max %C from { @a @b } @a }", "{ @a allowing overdraft up to %K { 1/2 from @a 1/2 from @b } }")
			}
			for i, s := range srcs {
				// every source with a plain destination, a rotating richer destination
				cases = append(cases, apiCase("C03", "send-fixed/plain-dest", []string{sendFixed("USD", s, "@d")}, nil))
				d := dsts[1+i%(len(dsts)-1)]
				cases = append(cases, apiCase("C03", "send-fixed/rich-dest", []string{sendFixed("USD", s, d)}, nil))
			}
			if tier == "thorough" {
				for _, d := range dsts {
					cases = append(cases, apiCase("C03", "send-fixed/world-src", []string{sendFixed("USD", "@world", d)}, nil))
					cases = append(cases, apiCase("C03", "send-fixed/two-src", []string{sendFixed("USD", "{ @a @b }", d)}, nil))
				}
			}
			cases = append(cases, mixCases("C03")...)
			return withObserved(cases, obsEvery(tier))
		},
		Bounds: map[string]map[string]interface{}{
			"quick":    {"statements": 1, "source_leaves": "<=3", "source_depth": "<=2", "destination_clauses": "<=2 (1 cap + remaining), kept anywhere, 2-3 way allotments", "amounts": "unbounded integers"},
			"thorough": {"statements": 1, "source_leaves": "<=3 (all 3-leaf trees) + 200 sampled 4-leaf trees", "source_depth": "<=3", "destination_clauses": "<=3, nested depth 2", "amounts": "unbounded integers"},
		},
		Assumptions: apiAssumptions, Stubs: apiStubs,
		Outside: []string{"scripts outside the template family (more leaves, deeper nesting, more than 3 accounts / 1 asset per statement)", "literal (non-variable) amounts: the parser's NumberLiteral is a machine int and is covered in C14"},
	})
}

func stdBounds(q, t map[string]interface{}) map[string]map[string]interface{} {
	return map[string]map[string]interface{}{"quick": q, "thorough": t}
}

var apiOutside = []string{"scripts outside the template family (more leaves / statements, deeper nesting, more accounts or assets)", "literal (non-variable) amounts: NumberLiteral is a machine int, its conversion is covered in C14", "ANTLR lexer/parser (native)"}

func init() {
	// ------------------------------------------------------------ C01
	Register(&Check{
		ID: "C01", Title: "no unauthorised overdraft",
		Files: apiFiles, LoadPkgs: apiLoad, InitPkgs: apiInit,
		Cases: func(tier string) []Case {
			var cases []Case
			accs := []string{"a", "b"}
			o := srcOpts{world: true, unbounded: true, caps: true, allot: true}
			var srcs []string
			srcs = append(srcs, srcTrees(1, 1, accs[:1], o)...)
			two := srcTrees(2, 1, accs, o)
			three := []string{"{ @a @b @a }", "{ @a { @b @a } }", "{ max %C from { @a @b } @a }", "{ @a allowing overdraft up to %K @a @a }",
				"{ max %C from @a max %C from @a @a }", "{ 1/2 from { @a @b } 1/2 from @a }"}
			if tier == "thorough" {
				srcs = append(srcs, two...)
				srcs = append(srcs, srcTrees(3, 2, accs, o)...)
				srcs = append(srcs, thin(srcTrees(4, 3, accs, o), 400)...)
				srcs = append(srcs, three...)
			} else {
				srcs = append(srcs, thin(two, 24)...)
				srcs = append(srcs, three...)
			}
			for _, s := range srcs {
				cases = append(cases, apiCase("C01", "one-statement/fixed", []string{sendFixed("USD", s, "@d")}, nil))
				cases = append(cases, apiCase("C01", "one-statement/send-all", []string{sendAll("USD", s, "@d")}, nil))
			}
			// across statements
			first := []string{
				sendFixed("USD", "@a", "@b"), sendFixed("USD", "@b", "@a"), sendAll("USD", "@a", "@d"),
				"save %N from @a", "save [USD *] from @a", sendFixed("USD", "@a allowing overdraft up to %K", "@d"),
				sendFixed("USD", "@world", "@a"),
				"send [EUR *] (\n  source = @a\n  destination = @b\n)",
				"save [EUR *] from @a",
				sendFixed("USD", "@a", "@world"), sendAll("USD", "@a allowing overdraft up to %K", "@world"), sendFixed("USD", "@a", "@a"), sendFixed("USD", "@a allowing unbounded overdraft", "@b"),
				sendFixed("USD", "{ @a @world }", "{ 1/2 to @a 1/2 to @b }"), sendFixed("USD", "@a", "{ remaining kept }"),
			}
			second := []string{
				sendFixed("USD", "@a", "@d"), sendAll("USD", "{ @a @b }", "@d"), sendFixed("USD", "{ @a @a allowing overdraft up to %K }", "@d"),
			}
			if tier == "thorough" {
				second = append(second, sendFixed("USD", "{ 1/2 from @a 1/2 from @b }", "@d"), sendAll("USD", "@a allowing overdraft up to %K", "@a"),
					sendFixed("USD", "max %C from { @a @b }", "{ max %C to @a remaining to @d }"))
			}
			for _, f := range first {
				for _, s := range second {
					cases = append(cases, apiCase("C01", "two-statements", []string{f, s}, nil))
				}
			}
			// a statement touching an account (or asset) the store knows nothing about, between two debits
			omitP := map[string][2]string{"_omit": {"", "p"}}
			for _, mid := range []string{"save %N from @p", "save [USD *] from @p", sendAll("USD", "@p", "@d"), sendFixed("USD", "{ @p @world }", "@d"), "send [EUR *] (\n  source = @a\n  destination = @d\n)"} {
				ex := omitP
				if strings.Contains(mid, "EUR") {
					ex = map[string][2]string{"_omitasset": {"", "a/EUR"}}
				}
				cases = append(cases, apiCase("C01", "unknown-account-between-debits", []string{sendFixed("USD", "@a", "@b"), mid, sendFixed("USD", "{ @a @world }", "@e")}, ex))
				cases = append(cases, apiCase("C01", "unknown-account-between-debits", []string{sendAll("USD", "@a", "@b"), mid, sendAll("USD", "@a allowing overdraft up to %K", "@e")}, ex))
			}
			// the same account as a source for two assets, with stores that answer exactly what is asked
			for _, kind := range []string{"exact", "sparse"} {
				st := map[string][2]string{"_store": {"", kind}}
				eur := "send [EUR 40] (\n  source = { @a allowing overdraft up to [EUR 50] @world }\n  destination = @d\n)"
				cases = append(cases, apiCase("C01", "two-assets/"+kind+"-store", []string{eur, sendFixed("USD", "@a", "@e")}, st))
				cases = append(cases, apiCase("C01", "two-assets/"+kind+"-store", []string{sendFixed("USD", "{ @a @b }", "@e"), eur}, st))
				cases = append(cases, apiCase("C01", "two-assets/"+kind+"-store", []string{"send [EUR *] (\n  source = @a allowing overdraft up to [EUR 7]\n  destination = @d\n)", sendAll("USD", "{ @a @b allowing overdraft up to %K }", "@e")}, st))
				cases = append(cases, apiCase("C01", "two-statements/"+kind+"-store", []string{first[0], second[2]}, st))
				cases = append(cases, apiCase("C01", "two-statements/"+kind+"-store", []string{first[3], second[1]}, st))
			}
			// account reached through variables (aliasing)
			for _, alias := range []string{"a", "b"} {
				cases = append(cases, apiCase("C01", "aliasing", []string{sendFixed("USD", "{ @a $src }", "@d")}, map[string][2]string{"src": {"account", "acc:" + alias}}))
				cases = append(cases, apiCase("C01", "aliasing", []string{sendAll("USD", "{ $src @a allowing overdraft up to %K }", "@d")}, map[string][2]string{"src": {"account", "acc:" + alias}}))
			}
			if tier == "thorough" {
				for _, f := range first[:4] {
					for _, g := range first[:4] {
						cases = append(cases, apiCase("C01", "three-statements", []string{f, g, second[0]}, nil))
					}
				}
			}
			cases = append(cases, mixCases("C01")...)
			return withObserved(cases, obsEvery(tier))
		},
		Bounds: stdBounds(
			map[string]interface{}{"statements": "1..2", "source_leaves": "<=3", "depth": "<=2", "destinations": "single account (also an account that is a source)", "numbers": "unbounded integers"},
			map[string]interface{}{"statements": "1..3", "source_leaves": "<=3 (all 729 3-leaf trees over 2 accounts) + 400 sampled 4-leaf trees", "depth": "<=3", "numbers": "unbounded integers"}),
		Assumptions: apiAssumptions, Stubs: apiStubs, Outside: apiOutside,
	})

	// ------------------------------------------------------------ C02
	Register(&Check{
		ID: "C02", Title: "every posting is a real transfer", PanicViolates: false,
		Files: apiFiles, LoadPkgs: apiLoad, InitPkgs: apiInit,
		Cases: func(tier string) []Case {
			var cases []Case
			accs := []string{"a", "b"}
			o := srcOpts{world: true, unbounded: false, caps: true, allot: true}
			srcs := append(srcTrees(1, 1, accs[:1], o), thin(srcTrees(2, 1, accs, o), 16)...)
			dsts := dstTrees(2, true, false, true)
			if tier == "thorough" {
				srcs = append(srcTrees(1, 1, accs, o), srcTrees(2, 1, accs, o)...)
				srcs = append(srcs, thin(srcTrees(3, 2, accs, o), 60)...)
				dsts = dstTrees(3, true, true, true)
			}
			for i, s := range srcs {
				n := 3
				if tier == "thorough" {
					n = 6
				}
				for j := 0; j < n; j++ {
					d := dsts[(i*7+j*5)%len(dsts)]
					cases = append(cases, apiCase("C02", "send-fixed", []string{sendFixed("USD", s, d)}, nil))
				}
				cases = append(cases, apiCase("C02", "send-all", []string{sendAll("USD", s, dsts[(i*3+1)%len(dsts)])}, nil))
			}
			// undefined-by-text corners stay under the positivity/conservation assertions of the interpreter run only
			for _, d := range dsts {
				cases = append(cases, apiCase("C02", "kept-vs-shares", []string{sendFixed("USD", "{ @a @b }", d)}, nil))
			}
			// the same account several times with different limits, two destinations (a negative
			// or zero share cannot hide by merging into the previous posting)
			for _, s := range []string{"{ @a allowing overdraft up to %K @a @world }", "{ @a allowing overdraft up to %K @a allowing overdraft up to %K @b }",
				"{ max %C from @a @a allowing overdraft up to %K @a }", "{ @a @a allowing overdraft up to %K @world }"} {
				cases = append(cases, apiCase("C02", "repeated-account", []string{sendFixed("USD", s, "{ max %C to @d remaining to @e }")}, nil))
				cases = append(cases, apiCase("C02", "repeated-account", []string{sendFixed("USD", s, "{ 1/2 to @d 1/2 to @e }")}, nil))
			}
			// account variables carrying arbitrary text
			for _, role := range []string{"dest", "source", "kept-mix"} {
				for n := 0; n <= 2; n++ {
					cases = append(cases, Case{ID: fmt.Sprintf("C02 account-variable-text %s bytes=%d", role, n), Pkg: "", Fn: "ZZC02AccountText", Args: []string{role, fmt.Sprint(n), ""}, Tag: "account-variable-text"})
				}
				for _, t := range []string{"<kept>", "world", "a:b", "a b", ":", "a:", "é"} {
					cases = append(cases, Case{ID: fmt.Sprintf("C02 account-variable-text %s text=%s", role, t), Pkg: "", Fn: "ZZC02AccountText", Args: []string{role, "0", t}, Tag: "account-variable-text"})
				}
			}
			cases = append(cases, apiCase("C02", "two-assets", []string{"send [EUR *] (\n source = { @a @b }\n destination = { max [EUR 3] to @d remaining kept }\n)", sendFixed("USD", "{ @b @a }", "{ 1/2 to @d 1/2 to @e }"), "send [EUR *] (\n source = @d\n destination = @a\n)"}, nil))
			cases = append(cases, apiCase("C02", "two-assets", []string{sendFixed("USD", "@a", "@d"), "send [EUR *] (\n source = @a\n destination = @e\n)"}, nil))
			// portions that leave less than nothing for `remaining` (remaining first, in the middle, last)
			for _, d := range []string{"{ remaining to @c 2/3 to @d 2/3 to @e }", "{ 2/3 to @d remaining to @c 2/3 to @e }", "{ 2/3 to @d 2/3 to @e remaining to @c }", "{ 75% to @d $p to @e remaining kept }", "{ remaining kept 75% to @d $p to @e }"} {
				cases = append(cases, apiCase("C02", "oversubscribed-remaining", []string{sendFixed("USD", "@world", d)}, map[string][2]string{"p": {"portion", "portion:1/2"}}))
			}
			for _, sr := range []string{"{ remaining from @a 2/3 from @world 2/3 from @world }", "{ 2/3 from @world 2/3 from @b remaining from @a }"} {
				cases = append(cases, apiCase("C02", "oversubscribed-remaining", []string{sendFixed("USD", sr, "@d")}, nil))
			}
			cases = append(cases, mixCases("C02")...)
			return withObserved(cases, obsEvery(tier))
		},
		Bounds: stdBounds(
			map[string]interface{}{"statements": "1 (one 2-asset script)", "source_leaves": "<=2", "destination_clauses": "<=3, kept in every position", "numbers": "unbounded integers incl. negative balances and caps"},
			map[string]interface{}{"statements": "1 (one 2-asset script)", "source_leaves": "<=3", "destination_clauses": "<=4, nested depth 2", "numbers": "unbounded integers"}),
		Assumptions: apiAssumptions, Stubs: apiStubs, Outside: apiOutside,
	})

	// ------------------------------------------------------------ C04
	Register(&Check{
		ID: "C04", Title: "sources drawn in declared order",
		Files: apiFiles, LoadPkgs: apiLoad, InitPkgs: apiInit,
		Cases: func(tier string) []Case {
			var cases []Case
			accs := []string{"a", "b"}
			o := srcOpts{world: true, unbounded: true, caps: true, allot: true}
			srcs := append(srcTrees(1, 1, accs[:1], o), thin(srcTrees(2, 1, accs, o), 30)...)
			srcs = append(srcs, "{ @a @b @c }", "{ max %C from { @a @b } @c }", "{ @a max %C from { @b @c } }", "max %C from { @a @b allowing overdraft up to %K @world }",
				"{ max %C from @a max %C from @a @b }", "max %C from { 1/2 from @a 1/2 from @b }", "max %C from @a allowing unbounded overdraft", "max %C from max %C from @a")
			if tier == "thorough" {
				srcs = append(srcs, srcTrees(2, 1, accs, o)...)
				srcs = append(srcs, srcTrees(3, 2, accs, o)...)
				srcs = append(srcs, thin(srcTrees(3, 2, []string{"a", "b", "c"}, o), 400)...)
				srcs = append(srcs, thin(srcTrees(4, 3, accs, o), 300)...)
				srcs = dedupe(srcs)
			}
			for _, s := range srcs {
				cases = append(cases, apiCase("C04", "fixed", []string{sendFixed("USD", s, "@d")}, nil))
				cases = append(cases, apiCase("C04", "send-all", []string{sendAll("USD", s, "@d")}, nil))
			}
			for _, alias := range []string{"a", "b", "world"} {
				cases = append(cases, apiCase("C04", "account-variable", []string{sendFixed("USD", "{ $src @a }", "@d")}, map[string][2]string{"src": {"account", "acc:" + alias}}))
				cases = append(cases, apiCase("C04", "account-variable", []string{sendAll("USD", "{ @b $src }", "@d")}, map[string][2]string{"src": {"account", "acc:" + alias}}))
			}
			cases = append(cases, mixCases("C04")...)
			return withObserved(cases, obsEvery(tier))
		},
		Bounds: stdBounds(
			map[string]interface{}{"statements": 1, "source_leaves": "<=3", "depth": "<=2", "modes": "fixed amount and send-all", "destination": "single account", "numbers": "unbounded integers"},
			map[string]interface{}{"statements": 1, "source_leaves": "<=3 (all over 2 accounts, 400 sampled over 3) + 300 sampled 4-leaf trees", "depth": "<=3", "modes": "fixed amount and send-all", "numbers": "unbounded integers"}),
		Assumptions: apiAssumptions, Stubs: apiStubs, Outside: apiOutside,
	})

	// ------------------------------------------------------------ C05
	Register(&Check{
		ID: "C05", Title: "destinations filled in order",
		Files: apiFiles, LoadPkgs: apiLoad, InitPkgs: apiInit,
		Cases: func(tier string) []Case {
			var cases []Case
			dsts := dstTrees(2, true, true, true)
			if tier == "thorough" {
				dsts = dstTrees(4, true, true, true)
				dsts = append(dsts, "{ max %C to { max %C to @a remaining to @b } max %C to { 1/3 to @d remaining to @e } remaining to { 1/2 to @c 1/2 kept } }")
				dsts = append(dsts, "{ max %C to { max %C to { max %C to @d remaining kept } remaining to @e } remaining to @a }",
					"{ 1/3 to { 1/2 to @d 1/2 kept } 1/3 to { max %C kept remaining to @e } remaining to @a }")
			}
			dsts = append(dsts, "{ max %C to { max %C to @a remaining to @b } remaining to { 1/2 to @c 1/2 to @d } }", "{ max %C to @d max %C to @d remaining to @e }",
				"{ 1/2 to { max %C to @a remaining to @b } 1/2 to { max %C to @b remaining to @a } }")
			for _, d := range dsts {
				cases = append(cases, apiCase("C05", "world-source", []string{sendFixed("USD", "@world", d)}, nil))
			}
			// the same cap variable on several clauses, kept included
			for _, d := range []string{"{ max $cap kept max $cap to @d remaining to @e }", "{ max $cap to @d max $cap to @d max $cap kept remaining to @e }", "{ max $cap to { max $cap to @a remaining kept } remaining to @d }"} {
				cases = append(cases, apiCase("C05", "shared-cap-variable", []string{sendFixed("USD", "{ @a @b }", d)}, map[string][2]string{"cap": {"monetary", "mon:USD"}}))
				cases = append(cases, apiCase("C05", "shared-cap-variable", []string{sendFixed("USD", "@world", d)}, map[string][2]string{"cap": {"monetary", "mon:USD"}}))
			}
			for _, d := range thin(dsts, 12) {
				cases = append(cases, apiCase("C05", "send-all-source", []string{sendAll("USD", "{ @a @b }", d)}, nil))
				cases = append(cases, apiCase("C05", "dest-variable", []string{sendFixed("USD", "@world", "{ max %C to $dst remaining to @d }")}, map[string][2]string{"dst": {"account", "acc:d"}}))
			}
			cases = append(cases, mixCases("C05")...)
			return withObserved(cases, obsEvery(tier))
		},
		Bounds: stdBounds(
			map[string]interface{}{"destination_clauses": "<=3 (2 caps + remaining)", "nesting": "<=2", "kept": "every position", "allotments": "2-3 way", "numbers": "unbounded integers incl. zero/negative/huge caps"},
			map[string]interface{}{"destination_clauses": "<=5 (4 caps + remaining)", "nesting": "<=3", "kept": "every position", "numbers": "unbounded integers"}),
		Assumptions: apiAssumptions, Stubs: apiStubs, Outside: apiOutside,
	})

	// ------------------------------------------------------------ C08
	Register(&Check{
		ID: "C08", Title: "save reserves funds",
		Files: apiFiles, LoadPkgs: apiLoad, InitPkgs: apiInit,
		Cases: func(tier string) []Case {
			var cases []Case
			saves := []string{"save %N from @a", "save [USD *] from @a"}
			sends := []string{sendFixed("USD", "@a", "@d"), sendAll("USD", "@a", "@d"), sendFixed("USD", "@a allowing overdraft up to %K", "@d"),
				sendFixed("USD", "{ @a @b }", "@d"), sendAll("USD", "{ @b @a allowing overdraft up to %K }", "@d"), sendFixed("USD", "@a allowing unbounded overdraft", "@d")}
			for _, sv := range saves {
				for _, sd := range sends {
					cases = append(cases, apiCase("C08", "save;send", []string{sv, sd}, nil))
				}
			}
			cases = append(cases, apiCase("C08", "save-var-account", []string{"save %N from $acc", sends[0]}, map[string][2]string{"acc": {"account", "acc:a"}}))
			cases = append(cases, apiCase("C08", "save-other-asset", []string{"save [EUR *] from @a", sends[0]}, nil))
			cases = append(cases, apiCase("C08", "save-only", []string{"save %N from @a"}, nil))
			cases = append(cases, apiCase("C08", "send;save;send", []string{sendFixed("USD", "@world", "@a"), "save %N from @a", sends[0]}, nil))
			// a reservation larger than the balance must not swallow money received later
			cases = append(cases, apiCase("C08", "save;credit;spend", []string{"save %N from @a", sendFixed("USD", "@world", "@a"), sends[0]}, nil))
			cases = append(cases, apiCase("C08", "save;credit;spend", []string{"save [USD *] from @a", sendFixed("USD", "@b", "@a"), sends[2]}, nil))
			// a posting from the saved account to itself between the save and the spending
			cases = append(cases, apiCase("C08", "save;self-send;send", []string{"save %N from @a", sendFixed("USD", "@a", "@a"), sends[0]}, nil))
			cases = append(cases, apiCase("C08", "save;self-send;send", []string{"save %N from @a", sendFixed("USD", "{ @a @world }", "{ 1/2 to @a 1/2 to @b }"), sends[1]}, nil))
			cases = append(cases, apiCase("C08", "save;self-send;send", []string{"save [USD *] from @a", sendFixed("USD", "@world", "@a"), sendFixed("USD", "@a", "@a"), sends[3]}, nil))
			// two saves on one account (two assets, two amounts), stores that answer exactly what is asked
			for _, kind := range []string{"exact", "sparse", "interned"} {
				st := map[string][2]string{"_store": {"", kind}}
				cases = append(cases, apiCase("C08", "two-saves/"+kind+"-store", []string{"save %N from @a", "save [EUR 3] from @a", sends[0]}, st))
				cases = append(cases, apiCase("C08", "two-saves/"+kind+"-store", []string{"save [EUR *] from @a", "save %N from @a", sends[1]}, st))
				cases = append(cases, apiCase("C08", "two-saves/"+kind+"-store", []string{"save %N from @a", "save %N from @a", sends[3]}, st))
				cases = append(cases, apiCase("C08", "save;send/"+kind+"-store", []string{saves[0], sends[2]}, st))
			}
			if tier == "thorough" {
				for _, s1 := range saves {
					for _, s2 := range saves {
						for _, sd := range sends[:4] {
							cases = append(cases, apiCase("C08", "save;save;send", []string{s1, s2, sd}, nil))
							cases = append(cases, apiCase("C08", "save;send;send", []string{s1, sd, sends[0]}, nil))
							cases = append(cases, apiCase("C08", "send;save;send", []string{sd, s2, sends[1]}, nil))
						}
					}
				}
			}
			cases = append(cases, mixCases("C08")...)
			return withObserved(cases, obsEvery(tier))
		},
		Bounds: stdBounds(
			map[string]interface{}{"saves": "1..2 (two assets; exact / sparse / interned stores besides StaticStore)", "sends": "1..2", "numbers": "unbounded integers (balance any sign, saved amount below/equal/above)"},
			map[string]interface{}{"saves": "1..2", "sends": "1..2, all orders", "numbers": "unbounded integers"}),
		Assumptions: apiAssumptions, Stubs: apiStubs, Outside: apiOutside,
	})
}

// every quick case gets its observed twin; the thorough tiers (thousands of scripts) every fourth
func obsEvery(tier string) int {
	if tier == "thorough" {
		return 4
	}
	return 1
}

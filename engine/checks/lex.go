package checks

import (
	"github.com/antlr4-go/antlr/v4"
	nsantlr "github.com/formancehq/numscript/internal/parser/antlr"
)

// lexTokens splits a script into the token texts the real lexer sees (default channel only).
func lexTokens(text string) []string {
	is := antlr.NewInputStream(text)
	lexer := nsantlr.NewNumscriptLexer(is)
	lexer.RemoveErrorListeners()
	var out []string
	for _, t := range lexer.GetAllTokens() {
		if t.GetChannel() != antlr.TokenDefaultChannel || t.GetTokenType() == antlr.TokenEOF {
			continue
		}
		out = append(out, t.GetText())
	}
	return out
}

package checks

import (
	"strings"

	"github.com/formancehq/numscript/zzverif/vm"
)

func c09Case(tag string, stmts []string, extra map[string][2]string) Case {
	script, spec := instantiate(stmts, "USD", extra)
	header := ""
	body := script
	if strings.HasPrefix(script, "vars {") {
		i := strings.Index(script, "}\n")
		header = script[:i+2]
		body = script[i+2:]
	}
	// instantiate joined statements with "\n"; statements themselves contain newlines, so re-split by our own marker
	_ = body
	// rebuild statements with placeholders already replaced: instantiate each statement text again is not possible,
	// so split the instantiated body on the statement boundaries we know (each original statement is contiguous)
	var inst []string
	rest := body
	for i := range stmts {
		if i == len(stmts)-1 {
			inst = append(inst, rest)
			break
		}
		// a statement ends at the first "\n" followed by the start keyword of the next statement at column 0
		next := firstWord(stmts[i+1])
		j := strings.Index(rest, "\n"+next)
		for j >= 0 {
			// make sure the candidate boundary leaves balanced parentheses on the left
			if balanced(rest[:j]) {
				break
			}
			k := strings.Index(rest[j+1:], "\n"+next)
			if k < 0 {
				j = -1
				break
			}
			j = j + 1 + k
		}
		if j < 0 {
			inst = append(inst, rest)
			break
		}
		inst = append(inst, rest[:j])
		rest = rest[j+1:]
	}
	return Case{ID: "C09 " + strings.ReplaceAll(script, "\n", " "), Pkg: "", Fn: "ZZC09", Args: []string{header, strings.Join(inst, "\n;;\n"), spec}, Tag: tag}
}

func firstWord(s string) string {
	for i, c := range s {
		if c == ' ' || c == '(' || c == '\n' {
			return s[:i]
		}
	}
	return s
}

func balanced(s string) bool {
	d := 0
	for _, c := range s {
		switch c {
		case '(', '{':
			d++
		case ')', '}':
			d--
		}
	}
	return d == 0
}

func init() {
	Register(&Check{
		ID: "C09", Title: "statements compose sequentially",
		Files: append(apiFiles, hf("", "zz_verif_c09.go")), LoadPkgs: apiLoad, InitPkgs: apiInit,
		Cases: func(tier string) []Case {
			stm := []string{
				sendFixed("USD", "@a", "@b"),
				sendFixed("USD", "@b", "@a"),
				sendFixed("USD", "{ @a @b }", "@d"),
				sendAll("USD", "@a", "@d"),
				sendFixed("USD", "@world", "@a"),
				"save %N from @a",
				"save [USD *] from @a",
				sendFixed("USD", "@a allowing overdraft up to %K", "{ max %C to @b remaining kept }"),
				// postings from an account to itself, sends that post nothing (all kept), sends to @world
				sendFixed("USD", "@a", "@a"),
				sendFixed("USD", "{ @a @world }", "{ 1/2 to @a 1/2 to @b }"),
				sendFixed("USD", "@a", "{ remaining kept }"),
				sendAll("USD", "@a", "{ max %C kept remaining to @b }"),
				sendFixed("USD", "@a", "@world"),
				sendFixed("USD", "@a allowing unbounded overdraft", "@b"),
				`set_tx_meta("k", 42)`,
				`set_tx_meta("k", @acc)`,
				`set_account_meta(@a, "k", [USD 7])`,
				`set_account_meta(@a, "j", "text")`,
				`set_account_meta(@a, "k", 10%)`,
				// a second asset on the same accounts
				"send [EUR *] (\n  source = @a\n  destination = @b\n)",
				"vars_eur",
			}
			stm[len(stm)-1] = "save [EUR 5] from @b"
			var cases []Case
			// a variable used inside + / - and again by a later statement (nothing but balances may carry over)
			infix := []string{
				sendFixed("USD", "@world", "{ max $fee + [USD 1] to @fees remaining to @merchant }"),
				sendFixed("USD", "@world", "{ max $fee - [USD 1] to @fees remaining kept }"),
				"send $fee + $fee (\n  source = @world\n  destination = @d\n)",
			}
			reuse := []string{"send $fee (\n  source = @world\n  destination = @tax\n)", `set_tx_meta("fee", $fee)`, "save $fee from @a"}
			for _, a := range infix {
				for _, b := range reuse {
					cases = append(cases, c09Case("variable-reuse-after-infix", []string{a, b}, map[string][2]string{"fee": {"monetary", "mon:USD"}}))
				}
			}
			// a variable sent by a statement funded by several senders, then used again
			for _, first := range []string{"send $fee (\n  source = { @a @b }\n  destination = @d\n)", "send $fee (\n  source = { 1/2 from @a 1/2 from @b }\n  destination = @pool\n)",
				"send [USD *] (\n  source = { @a @b }\n  destination = { max $fee to @f remaining to { 10% to @f remaining to @m } }\n)"} {
				for _, b := range append(reuse, "send $fee (\n  source = @world\n  destination = { 1/3 to @x 1/3 to @y remaining to @z }\n)", "send [USD *] (\n  source = @b\n  destination = { max $fee to @f2 remaining to @m2 }\n)") {
					cases = append(cases, c09Case("variable-reuse", []string{first, b}, map[string][2]string{"fee": {"monetary", "mon:USD"}}))
				}
			}
			// debit; a statement on an account / asset the store does not know; read the debited account again
			for _, mid := range []string{"send [EUR *] (\n  source = @c\n  destination = @d\n)", "save [USD 5] from @p", "save [EUR *] from @a"} {
				ex := map[string][2]string{"_omit": {"", "c,p"}, "_omitasset": {"", "a/EUR"}}
				cases = append(cases, c09Case("unknown-account-between-debits", []string{sendFixed("USD", "@a", "@b"), mid, sendFixed("USD", "@a", "@e")}, ex))
				cases = append(cases, c09Case("unknown-account-between-debits", []string{"save %N from @a", mid, sendAll("USD", "@a", "@e")}, ex))
			}
			cases = append(cases, c09Case("variable-reuse-after-infix", []string{`set_tx_meta("a", $n + 1)`, `set_tx_meta("b", $n)`, `set_tx_meta("c", $n - $n)`}, map[string][2]string{"n": {"number", "num"}}))
			n := len(stm)
			for i := 0; i < n; i++ {
				for j := 0; j < n; j++ {
					if tier != "thorough" && i >= 14 && j >= 14 && (i+j)%2 == 1 {
						continue
					}
					cases = append(cases, c09Case("two-statements", []string{stm[i], stm[j]}, nil))
				}
			}
			// the same pairs on a store that has never heard of @a (its balance is zero by
			// omission, the cache starts without an entry for it): quick tier for first
			// statements that can move @a without funds (credit, bounded and unbounded
			// overdraft, saves), thorough tier for every pair of send/save kinds
			for i := 0; i < 14; i++ {
				movesWithoutFunds := i == 4 || i == 5 || i == 6 || i == 7 || i == 13
				if tier != "thorough" && !movesWithoutFunds {
					continue
				}
				for j := 0; j < 14; j++ {
					cases = append(cases, c09Case("two-statements/account-unknown-to-the-store", []string{stm[i], stm[j]}, map[string][2]string{"_omit": {"", "a"}}))
				}
			}
			if tier == "thorough" {
				for i := 0; i < 8; i++ {
					for j := 0; j < 8; j++ {
						for k := 0; k < 8; k += 2 {
							cases = append(cases, c09Case("three-statements", []string{stm[i], stm[j], stm[(k+i)%8]}, nil))
						}
					}
				}
				cases = append(cases, c09Case("meta-x3", []string{stm[8], stm[10], stm[9]}, nil), c09Case("meta-x3", []string{stm[10], stm[12], stm[11]}, nil))
				cases = append(cases, c09Case("three-statements", []string{stm[5], stm[4], stm[0]}, nil), c09Case("three-statements", []string{stm[6], stm[1], stm[7]}, nil))
			} else {
				cases = append(cases, c09Case("three-statements", []string{stm[5], stm[4], stm[0]}, nil), c09Case("three-statements", []string{stm[6], stm[1], stm[7]}, nil))
				cases = append(cases, c09Case("three-statements", []string{stm[4], stm[5], stm[0]}, nil), c09Case("three-statements", []string{stm[0], stm[1], stm[2]}, nil),
					c09Case("meta-x3", []string{stm[8], stm[10], stm[9]}, nil))
			}
			return cases
		},
		Bounds: stdBounds(
			map[string]interface{}{"statements": "2 (all ordered pairs of 13 statement kinds, thinned on metadata pairs) + three 3-statement scripts", "runs_per_path": "whole + one per statement", "numbers": "unbounded integers"},
			map[string]interface{}{"statements": "2..3 (all pairs, 256 triples of send/save kinds)", "numbers": "unbounded integers"}),
		Assumptions: append([]string{"variables do not read balances (as the property states)", "B' is computed by the harness from the postings actually returned by the single-statement runs plus the save rule of the property text"}, apiAssumptions...),
		Stubs: apiStubs, Outside: apiOutside,
	})
	_ = vm.RepoModule
}

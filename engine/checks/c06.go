package checks

import (
	"fmt"
	"math/big"
	"strings"

	"github.com/formancehq/numscript/zzverif/vm"
)

// compositions of total into k parts >= minPart
func compositions(total, k, minPart int) [][]int {
	if k == 1 {
		if total >= minPart {
			return [][]int{{total}}
		}
		return nil
	}
	var out [][]int
	for first := minPart; first <= total-minPart*(k-1); first++ {
		for _, rest := range compositions(total-first, k-1, minPart) {
			out = append(out, append([]int{first}, rest...))
		}
	}
	return out
}

// number of compositions of total into k parts >= 0, capped
func countCompositions(total, k int) int {
	// C(total+k-1, k-1), capped at 1e6
	n := 1
	for i := 1; i <= k-1; i++ {
		n = n * (total + i) / i
		if n > 1000000 {
			return 1000000
		}
	}
	return n
}

// sampleCompositions returns up to max compositions of d into k parts >= 0:
// all of them thinned when the space is small, a deterministic sample otherwise.
func sampleCompositions(d, k, max int) [][]int {
	if countCompositions(d, k) <= 20000 {
		comps := compositions(d, k, 0)
		if len(comps) <= max {
			return comps
		}
		out := make([][]int, 0, max)
		for i := 0; i < max; i++ {
			out = append(out, comps[i*len(comps)/max])
		}
		return out
	}
	var out [][]int
	seed := uint64(d*131 + k*17 + 12345)
	next := func(n int) int {
		seed = seed*6364136223846793005 + 1442695040888963407
		return int((seed >> 33) % uint64(n))
	}
	for len(out) < max {
		// k-1 sorted cut points in [0, d]
		cuts := make([]int, k-1)
		for i := range cuts {
			cuts[i] = next(d + 1)
		}
		for i := 1; i < len(cuts); i++ {
			for j := i; j > 0 && cuts[j] < cuts[j-1]; j-- {
				cuts[j], cuts[j-1] = cuts[j-1], cuts[j]
			}
		}
		c := make([]int, k)
		prev := 0
		for i, x := range cuts {
			c[i] = x - prev
			prev = x
		}
		c[k-1] = d - prev
		out = append(out, c)
	}
	return out
}

func portionVectors(tier string) []string {
	var out []string
	dens := []int{1, 2, 3, 4, 5, 6, 7, 8, 9, 10, 12, 16, 100, 1000}
	maxLen := 4
	if tier == "thorough" {
		maxLen = 5
	}
	// exact sums on a common denominator (zero portions included)
	for _, d := range dens {
		for k := 1; k <= maxLen; k++ {
			max := 6
			if tier == "thorough" {
				max = 40
			}
			comps := sampleCompositions(d, k, max)
			for _, c := range comps {
				parts := make([]string, k)
				for i, n := range c {
					parts[i] = fmt.Sprintf("%d/%d", n, d)
				}
				out = append(out, strings.Join(parts, ","))
			}
		}
	}
	// mixed denominators, remaining in every position, variables, bad sums
	extra := []string{
		"1/2,1/3,1/6", "1/3,2/3", "2/3,1/3", "1/4,1/4,1/2", "1/7,2/7,4/7", "1/10,9/10", "1/1000,999/1000", "333/1000,333/1000,334/1000",
		"1/3,rem", "rem,1/3", "1/3,rem,1/3", "1/2,1/4,rem", "rem", "1/7,1/7,1/7,rem", "0/1,rem", "1/1,rem", "99/100,rem", "1/16,rem,1/16",
		"v1/3,v2/3", "v1/2,1/2", "v1/4,rem", "rem,v3/4", "v1/3,v1/3,v1/3",
		"1/2,1/3", "1/2,1/2,1/2", "2/3,2/3", "1/3", "0/1", "3/2", "v1/2,v1/3", "1/3,1/3,1/3,1/3",
		"1/3,1/3,1/3", "1/6,1/6,1/6,1/6,1/6,1/6", "1/97,96/97", "5/12,7/12", "25/100,75/100", "125/1000,875/1000", "1/8,7/8",
	}
	out = append(out, extra...)
	if tier == "thorough" {
		for _, d := range []int{3, 7, 12, 100} {
			for n := 0; n <= d; n += 1 + d/12 {
				out = append(out, fmt.Sprintf("%d/%d,rem", n, d), fmt.Sprintf("rem,%d/%d", n, d), fmt.Sprintf("1/%d,rem,%d/%d", 2*d, n, 2*d))
			}
		}
	}
	return dedupe(out)
}

func init() {
	Register(&Check{
		ID: "C06", Title: "allotments split exactly",
		Files:    append([]vm.HarnessFile{hf("internal/interpreter", "zz_verif_c07.go"), hf("internal/interpreter", "zz_verif_c06.go"), hf("", "zz_verif_c13.go")}, apiFiles...),
		LoadPkgs: apiLoad, InitPkgs: apiInit,
		Cases: func(tier string) []Case {
			var cases []Case
			vecs := portionVectors(tier)
			for _, v := range vecs {
				cases = append(cases, Case{ID: "makeAllotment " + v, Pkg: "internal/interpreter", Fn: "ZZC06Allot", Args: []string{v}, Tag: "makeAllotment-unit"})
			}
			// API tier: destination and source allotments written as literals / percentages / variables
			api := []string{"1/3,2/3", "1/2,1/2", "1/3,1/3,1/3", "1/4,rem", "rem,1/4", "50%,50%", "12.5%,87.5%", "33%,33%,34%", "0.1%,rem", "1/7,2/7,4/7", "1/2,1/3", "10%,rem,20%"}
			if tier == "thorough" {
				for i, v := range vecs {
					if i%9 == 0 && !strings.Contains(v, "v") {
						api = append(api, v)
					}
				}
			}
			dnames := []string{"d", "e", "f", "g", "h"}
			for _, v := range api {
				items := strings.Split(v, ",")
				if len(items) > len(dnames) {
					continue
				}
				var dparts, sparts []string
				for i, it := range items {
					p := it
					if it == "rem" {
						p = "remaining"
					}
					dparts = append(dparts, p+" to @"+dnames[i])
					sparts = append(sparts, p+" from @"+dnames[i]+" allowing unbounded overdraft")
				}
				cases = append(cases, apiCase("C06", "api-destination-allotment", []string{sendFixed("USD", "@world", "{ "+strings.Join(dparts, " ")+" }")}, nil))
				cases = append(cases, apiCase("C06", "api-source-allotment", []string{sendFixed("USD", "{ "+strings.Join(sparts, " ")+" }", "@z")}, nil))
			}
			// literal spellings: the parsed portion is the written fraction, in base ten
			for _, sp := range [][]string{{"2.50%", "97.5%"}, {"50.0%", "50.00%"}, {"010%", "090%"}, {"0.10%", "99.90%"}, {"1/010", "9/10"}, {"08%", "92%"}, {"33.3333333333333333333333%", "66.6666666666666666666667%"}, {"1 / 4", "3/4"}, {"0%", "100%"}, {"12.5%", "87.5%"}} {
				var dparts, exp []string
				for i, it := range sp {
					dparts = append(dparts, it+" to @"+dnames[i])
					if strings.HasSuffix(it, "%") {
						exp = append(exp, nPercent(it).sx)
					} else {
						nd := strings.Split(strings.ReplaceAll(it, " ", ""), "/")
						n, _ := new(big.Int).SetString(nd[0], 10)
						d, _ := new(big.Int).SetString(nd[1], 10)
						exp = append(exp, n.String()+"/"+d.String())
					}
				}
				script := "vars {\n  monetary $n\n}\nsend $n (\n  source = @world\n  destination = { " + strings.Join(dparts, " ") + " }\n)"
				cases = append(cases, Case{ID: "portion-literal " + strings.Join(sp, " "), Pkg: "", Fn: "ZZC06Literal", Args: []string{script, strings.Join(exp, ",")}, Tag: "portion-literal-text"})
				cases = append(cases, Case{ID: "C06 " + script, Pkg: "", Fn: "ZZAPI", Args: []string{"C06", script, "n=mon:USD"}, Tag: "api-destination-allotment"})
			}
			// an allotment whose portions do not add up to one, nested in a clause of another allotment (its share may be zero)
			for _, d := range []string{"{ 1/2 to @d 1/2 to { 1/2 to @e 1/3 to @f } }", "{ 1/2 to { 1/2 to @e 1/3 to @f } 1/2 to @d }", "{ $p to { 1/2 to @e 1/3 to @f } remaining to @d }"} {
				cases = append(cases, apiCase("C06", "api-nested-bad-allotment", []string{sendFixed("USD", "@world", d)}, map[string][2]string{"p": {"portion", "portion:0/1"}}))
			}
			for _, sr := range []string{"{ 1/2 from @world 1/2 from { 1/2 from @world 1/3 from @world } }", "{ @world { 1/2 from @a 1/3 from @b } }"} {
				cases = append(cases, apiCase("C06", "api-nested-bad-allotment", []string{sendFixed("USD", sr, "@z")}, nil))
			}
			// portion variables through the API
			cases = append(cases, apiCase("C06", "api-portion-variable", []string{sendFixed("USD", "@world", "{ $p to @d remaining to @e }")}, map[string][2]string{"p": {"portion", "portion:1/3"}}))
			// the same portion variable in several clauses of one allotment
			cases = append(cases, apiCase("C06", "api-portion-variable-repeated", []string{sendFixed("USD", "@world", "{ $p to @d $p to @e remaining to @f }")}, map[string][2]string{"p": {"portion", "portion:1/4"}}))
			cases = append(cases, apiCase("C06", "api-portion-variable-repeated", []string{sendFixed("USD", "{ $p from @a allowing unbounded overdraft $p from @b allowing unbounded overdraft remaining from @c allowing unbounded overdraft }", "@z")}, map[string][2]string{"p": {"portion", "portion:1/3"}}))
			cases = append(cases, apiCase("C06", "api-portion-variable-repeated", []string{sendFixed("USD", "@world", "{ $p to @d $p to @e $p to @f $p to @g }")}, map[string][2]string{"p": {"portion", "portion:1/4"}}))
			cases = append(cases, apiCase("C06", "api-portion-variable", []string{sendFixed("USD", "@world", "{ $p to @d $q to @e }")}, map[string][2]string{"p": {"portion", "portion:2/7"}, "q": {"portion", "portion:5/7"}}))
			return withObserved(cases, 1)
		},
		Bounds: stdBounds(
			map[string]interface{}{"vector_length": "1..4", "denominators": "{1..10,12,16,100,1000} (thinned), mixed, remaining in every position, portion variables, sums != 1", "amount": "every integer >= 0"},
			map[string]interface{}{"vector_length": "1..5", "denominators": "{1..10,12,16,100,1000} (40 vectors per denominator and length)", "amount": "every integer >= 0"}),
		Assumptions: append([]string{"portions are concrete rationals per case (p*M with both symbolic is non-linear); the amount is symbolic"}, apiAssumptions...),
		Stubs:       apiStubs,
		Outside:     []string{"portion vectors outside the enumerated grid", "allotments with `remaining` whose other portions exceed one, or with two `remaining` clauses (undefined by the property text)"},
	})
}

package lsp

import (
	"encoding/json"
	"io"
	"os"
	"strings"

	"github.com/formancehq/numscript/internal/analysis"
	"github.com/formancehq/numscript/internal/parser"
	"github.com/formancehq/numscript/internal/zzvrt"
	"github.com/sourcegraph/jsonrpc2"
)

func zzItoa(i int) string {
	if i == 0 {
		return "0"
	}
	s := ""
	for i > 0 {
		s = string(rune('0'+i%10)) + s
		i /= 10
	}
	return s
}

var zzTexts = []string{
	"vars {\n  monetary $m\n  account $a\n}\nsend $m (\n  source = $a\n  destination = @b\n)\n",
	"vars {\n  account $x = meta(@a, \"k\")\n}\nsend [USD 1] (\n  source = { $x @c }\n  destination = @d\n)\nset_tx_meta(\"k\", $x)\n",
	"vars { number $n }\nsend [USD *] (\n  source = $n\n",
	// navigation only: variables in every operand position of infix expressions, caps, limits, allotments
	"vars {\n  monetary $cap\n  number $n\n  account $dest\n  portion $p\n}\nsend [USD 10] (\n  source = { max $cap from @a @world }\n  destination = { max $cap kept max [USD $n] kept $p to { max $cap to $dest remaining kept } remaining to $dest }\n)\nsave $cap from $dest\n",
	// calls with too few arguments
	"vars {\n  account $acc\n  string $key\n  monetary $bal = balance($acc)\n}\nset_account_meta($acc, $key)\nset_tx_meta($key)\nsend $bal (\n  source = $acc\n  destination = @b\n)\n",
	// several statements on one line; a declaration with a misspelt type
	"vars { string $key number $val }\nset_tx_meta($key, 1) set_tx_meta(\"other\", $val) send [USD $val] (\n  source = @a\n  destination = @b\n) set_account_meta(@a, $key, $val)\n",
	"vars {\n  acount $dest\n  monetary $m\n}\nsend $m (\n  source = @world\n  destination = $dest\n)\n",
	"vars {\n  number $x\n  number $y\n  monetary $fee\n  portion $p\n  account $acc\n}\nsend [USD $x + $y - $x] (\n  source = { max $fee - [USD 1] from $acc  @b allowing overdraft up to $fee + $fee }\n  destination = { $p to $acc remaining to { max $fee to @c remaining kept } }\n)\nset_account_meta($acc, \"k\", $y - 1 + $x)\n",
	// constructs written over several lines (one operand per line, a call's arguments below each other)
	"vars {\n  number $x\n  number $y\n  monetary $fee\n  portion $p\n  account $acc\n}\nsend [USD $x\n  + $y\n  - $x] (\n  source = {\n    max $fee\n      - [USD 1]\n    from $acc\n    @b allowing overdraft up to\n      $fee\n      + $fee\n  }\n  destination = {\n    $p\n      to $acc\n    remaining\n      to @c\n  }\n)\nset_account_meta(\n  $acc,\n  \"k\",\n  $y\n    - 1\n    + $x\n)\n",
}

// the first two identify different documents although they differ only in the case of
// one letter (URIs are compared as they are written); the third is unrelated
var zzURIs = []DocumentURI{"file:///ledger/Payout.num", "file:///ledger/payout.num", "file:///other/three.num"}

// zzNotifications runs f and returns the publishDiagnostics notifications it sent.
// zzOpen opens a document through the public entry point (not through the unexported
// helper behind it, whose signature is an implementation detail).
func zzOpen(state *State, uri DocumentURI, text string) {
	_ = zzNotifications(func() {
		Handle(zzRequest("textDocument/didOpen", DidOpenTextDocumentParams{TextDocument: TextDocumentItem{URI: uri, LanguageID: "numscript", Version: 1, Text: text}}), state)
	})
}

func zzNotifications(f func()) []PublishDiagnosticsParams {
	var out []PublishDiagnosticsParams
	if zzvrt.Symbolic() {
		before := len(zzvrt.Stubbed("internal/lsp.SendNotification"))
		f()
		calls := zzvrt.Stubbed("internal/lsp.SendNotification")
		for _, c := range calls[before:] {
			args := c.([]interface{})
			if args[0].(string) != "textDocument/publishDiagnostics" {
				out = append(out, PublishDiagnosticsParams{URI: "<other notification>"})
				continue
			}
			out = append(out, args[1].(PublishDiagnosticsParams))
		}
		return out
	}
	// natively: capture what the server writes to stdout and decode the frames
	oldOut, oldErr := os.Stdout, os.Stderr
	r, w, _ := os.Pipe()
	devnull, _ := os.OpenFile(os.DevNull, os.O_WRONLY, 0)
	os.Stdout, os.Stderr = w, devnull
	done := make(chan []byte)
	go func() {
		b, _ := io.ReadAll(r)
		done <- b
	}()
	func() {
		defer func() {
			w.Close()
			os.Stdout, os.Stderr = oldOut, oldErr
			devnull.Close()
		}()
		f()
	}()
	data := string(<-done)
	for len(data) > 0 {
		i := strings.Index(data, "\r\n\r\n")
		if i < 0 {
			break
		}
		n := 0
		for _, c := range strings.TrimPrefix(data[:i], "Content-Length: ") {
			n = n*10 + int(c-'0')
		}
		body := data[i+4 : i+4+n]
		data = data[i+4+n:]
		var req jsonrpc2.Request
		if req.UnmarshalJSON([]byte(body)) != nil || req.Params == nil {
			continue
		}
		if req.Method != "textDocument/publishDiagnostics" {
			out = append(out, PublishDiagnosticsParams{URI: "<other notification>"})
			continue
		}
		var p PublishDiagnosticsParams
		json.Unmarshal([]byte(*req.Params), &p)
		out = append(out, p)
	}
	return out
}

func zzRequest(method string, params interface{}) jsonrpc2.Request {
	b, _ := json.Marshal(params)
	raw := json.RawMessage(b)
	return jsonrpc2.Request{Method: method, Params: &raw}
}

// zzLspRange: LSP positions are (line, character), both zero-based, as in the parser's ranges.
func zzLspRange(r parser.Range) Range {
	return Range{
		Start: Position{Line: uint32(r.Start.Line), Character: uint32(r.Start.Character)},
		End:   Position{Line: uint32(r.End.Line), Character: uint32(r.End.Character)},
	}
}

func zzSameRange(a, b Range) bool {
	return zzvrt.And(zzvrt.And(a.Start.Line == b.Start.Line, a.Start.Character == b.Start.Character),
		zzvrt.And(a.End.Line == b.End.Line, a.End.Character == b.End.Character))
}

func zzSameDiagnostics(got []Diagnostic, want []analysis.Diagnostic, id string) {
	zzvrt.Assert(len(got) == len(want), id)
	if len(got) != len(want) {
		return
	}
	for i, w := range want {
		// the expected LSP form is computed here, not with the server's own converters
		zzvrt.Assert(zzSameRange(got[i].Range, zzLspRange(w.Range)), id)
		zzvrt.Assert(got[i].Severity == DiagnosticSeverity(w.Kind.Severity()) && got[i].Message == w.Kind.Message(), id)
	}
}

func zzSameResponse(a, b any, id string) {
	switch x := a.(type) {
	case nil:
		zzvrt.Assert(b == nil, id)
	case *Hover:
		y, ok := b.(*Hover)
		zzvrt.Assert(ok, id)
		if !ok {
			return
		}
		zzvrt.Assert((x == nil) == (y == nil), id)
		if x != nil && y != nil {
			zzvrt.Assert(x.Contents.Value == y.Contents.Value && x.Contents.Kind == y.Contents.Kind, id)
			zzvrt.Assert(zzSameRange(x.Range, y.Range), id)
		}
	case *Location:
		y, ok := b.(*Location)
		zzvrt.Assert(ok, id)
		if !ok {
			return
		}
		zzvrt.Assert((x == nil) == (y == nil), id)
		if x != nil && y != nil {
			zzvrt.Assert(x.URI == y.URI, id)
			zzvrt.Assert(zzSameRange(x.Range, y.Range), id)
		}
	case []DocumentSymbol:
		y, ok := b.([]DocumentSymbol)
		zzvrt.Assert(ok, id)
		if !ok {
			return
		}
		zzvrt.Assert(len(x) == len(y), id)
		// symbols are an unordered set
		for _, s := range x {
			found := false
			for _, t := range y {
				if s.Name == t.Name && s.Detail == t.Detail && s.Kind == t.Kind &&
					s.Range.Start.Line == t.Range.Start.Line && s.Range.Start.Character == t.Range.Start.Character {
					found = true
				}
			}
			zzvrt.Assert(found, id)
		}
	default:
		zzvrt.Assert(false, id+":unexpected-response-type")
	}
}

// ZZC19Step: one request handled from ANY state that satisfies the invariant
// "every stored document holds its latest text and the analysis of that text".
// pre: two digits, for u1 and u2: 0 = not open, 1..3 = open with text 1..3.
func ZZC19Step(pre, method, uriIdx, textIdx, text2Idx string) {
	state := InitialState()
	latest := map[DocumentURI]string{}
	for i := 0; i < 2; i++ {
		c := int(pre[i] - '0')
		if c == 0 {
			continue
		}
		state.documents[zzURIs[i]] = InMemoryDocument{Text: zzTexts[c-1], CheckResult: analysis.CheckSource(zzTexts[c-1])}
		latest[zzURIs[i]] = zzTexts[c-1]
	}
	uri := zzURIs[int(uriIdx[0]-'0')]
	text := zzTexts[int(textIdx[0]-'0')]
	text2 := zzTexts[int(text2Idx[0]-'0')]
	pos := Position{Line: uint32(zzvrt.Int("line", 0, 1<<31)), Character: uint32(zzvrt.Int("char", 0, 1<<31))}
	tdp := TextDocumentPositionParams{TextDocument: TextDocumentIdentifier{URI: uri}, Position: pos}

	var req jsonrpc2.Request
	newText := ""
	writes := false
	switch method {
	case "didOpen":
		req = zzRequest("textDocument/didOpen", DidOpenTextDocumentParams{TextDocument: TextDocumentItem{URI: uri, LanguageID: "numscript", Version: 1, Text: text}})
		newText, writes = text, true
	case "didChange1":
		req = zzRequest("textDocument/didChange", DidChangeTextDocumentParams{
			TextDocument:   VersionedTextDocumentIdentifier{Version: 2, TextDocumentIdentifier: TextDocumentIdentifier{URI: uri}},
			ContentChanges: []TextDocumentContentChangeEvent{{Text: text}}})
		newText, writes = text, true
	case "didChange2":
		req = zzRequest("textDocument/didChange", DidChangeTextDocumentParams{
			TextDocument:   VersionedTextDocumentIdentifier{Version: 3, TextDocumentIdentifier: TextDocumentIdentifier{URI: uri}},
			ContentChanges: []TextDocumentContentChangeEvent{{Text: text}, {Text: text2}}})
		newText, writes = text2, true
	case "didChange0":
		// a change notification that carries no content change: the text stays what it was
		req = zzRequest("textDocument/didChange", DidChangeTextDocumentParams{
			TextDocument:   VersionedTextDocumentIdentifier{Version: 4, TextDocumentIdentifier: TextDocumentIdentifier{URI: uri}},
			ContentChanges: []TextDocumentContentChangeEvent{}})
	case "hover":
		req = zzRequest("textDocument/hover", HoverParams{TextDocumentPositionParams: tdp})
	case "definition":
		req = zzRequest("textDocument/definition", DefinitionParams{TextDocumentPositionParams: tdp})
	case "documentSymbol":
		req = zzRequest("textDocument/documentSymbol", DocumentSymbolParams{TextDocument: TextDocumentIdentifier{URI: uri}})
	default:
		req = zzRequest("workspace/somethingElse", DocumentSymbolParams{TextDocument: TextDocumentIdentifier{URI: uri}})
	}

	var resp any
	notes := zzNotifications(func() { resp = Handle(req, &state) })

	if writes {
		latest[uri] = newText
		zzvrt.Assert(len(notes) == 1, "C19:exactly-one-publish-per-change")
		if len(notes) == 1 {
			zzvrt.Assert(notes[0].URI == uri, "C19:diagnostics-published-for-the-changed-document")
			zzSameDiagnostics(notes[0].Diagnostics, analysis.CheckSource(newText).Diagnostics, "C19:published-diagnostics-are-the-fresh-analysis-of-the-latest-text")
		}
		zzvrt.Assert(resp == nil, "C19:notifications-have-no-result")
	} else if method == "didChange0" {
		// nothing changed: the server may stay silent or publish again, but only the
		// diagnostics of the unchanged text of that document
		zzvrt.Assert(resp == nil, "C19:notifications-have-no-result")
		for _, n := range notes {
			t, open := latest[uri]
			zzvrt.Assert(n.URI == uri && open, "C19:diagnostics-published-for-the-changed-document")
			if n.URI == uri && open {
				zzSameDiagnostics(n.Diagnostics, analysis.CheckSource(t).Diagnostics, "C19:published-diagnostics-are-the-fresh-analysis-of-the-latest-text")
			}
		}
	} else {
		zzvrt.Assert(len(notes) == 0, "C19:queries-publish-nothing")
	}
	// invariant preserved, and only the addressed document changed
	zzvrt.Assert(len(state.documents) == len(latest), "C19:only-the-addressed-document-changes")
	for u, t := range latest {
		d, ok := state.documents[u]
		zzvrt.Assert(ok, "C19:only-the-addressed-document-changes")
		if ok {
			zzvrt.Assert(d.Text == t, "C19:stored-text-is-the-latest")
			zzSameDiagnostics(func() []Diagnostic {
				var out []Diagnostic
				for _, x := range d.CheckResult.Diagnostics {
					out = append(out, Diagnostic{Range: zzLspRange(x.Range), Severity: DiagnosticSeverity(x.Kind.Severity()), Message: x.Kind.Message()})
				}
				return out
			}(), analysis.CheckSource(t).Diagnostics, "C19:stored-analysis-is-of-the-latest-text")
		}
	}
	// queries answer like a fresh server that only ever saw this document's latest text
	if method == "hover" || method == "definition" || method == "documentSymbol" {
		fresh := InitialState()
		if t, ok := latest[uri]; ok {
			zzOpen(&fresh, uri, t)
		}
		var want any
		_ = zzNotifications(func() { want = Handle(req, &fresh) })
		zzSameResponse(resp, want, "C19:response-equals-fresh-analysis-of-latest-text")
	}
	zzvrt.Reach("c19-step-end")
}

// ZZC19Nav: hover / definition at EVERY position of one document.
func ZZC19Nav(textIdx string) {
	text := zzTexts[int(textIdx[0]-'0')]
	uri := zzURIs[0]
	state := InitialState()
	zzOpen(&state, uri, text)
	doc := state.documents[uri]
	prog := doc.CheckResult.Program

	line := zzvrt.Int("line", 0, 1<<31)
	char := zzvrt.Int("char", 0, 1<<31)
	pos := Position{Line: uint32(line), Character: uint32(char)}
	tdp := TextDocumentPositionParams{TextDocument: TextDocumentIdentifier{URI: uri}, Position: pos}
	var hv, df any
	_ = zzNotifications(func() {
		hv = Handle(zzRequest("textDocument/hover", HoverParams{TextDocumentPositionParams: tdp}), &state)
		df = Handle(zzRequest("textDocument/definition", DefinitionParams{TextDocumentPositionParams: tdp}), &state)
	})
	hover, _ := hv.(*Hover)
	loc, _ := df.(*Location)

	// strictly inside [start, end): must-hold set; the end position itself is left open
	inside := func(r parser.Range) bool {
		afterStart := zzvrt.Or(line > r.Start.Line, zzvrt.And(line == r.Start.Line, char >= r.Start.Character))
		beforeEnd := zzvrt.Or(line < r.End.Line, zzvrt.And(line == r.End.Line, char < r.End.Character))
		return zzvrt.And(afterStart, beforeEnd)
	}
	closed := func(r parser.Range) bool {
		afterStart := zzvrt.Or(line > r.Start.Line, zzvrt.And(line == r.Start.Line, char >= r.Start.Character))
		beforeEnd := zzvrt.Or(line < r.End.Line, zzvrt.And(line == r.End.Line, char <= r.End.Character))
		return zzvrt.And(afterStart, beforeEnd)
	}
	decls := map[string]parser.VarDeclaration{}
	for _, d := range prog.Vars {
		if d.Name != nil && d.Type != nil {
			if _, dup := decls[d.Name.Name]; !dup {
				decls[d.Name.Name] = d
			}
		}
	}
	anywhere := false
	for _, u := range analysis.ZZVariableUses(prog) {
		d, declared := decls[u.Name]
		anywhere = zzvrt.Or(anywhere, closed(u.Range))
		if !declared {
			continue
		}
		want := "```numscript\n$" + u.Name + ": " + d.Type.Name + "\n```"
		okHover := hover != nil && hover.Contents.Value == want
		if okHover {
			okHover = zzvrt.And(zzSameRange(hover.Range, zzLspRange(u.Range)), true)
		}
		zzvrt.Assert(zzvrt.Implies(inside(u.Range), okHover), "C19:hover-inside-a-variable-use-names-it-and-its-type")
		okDef := loc != nil && loc.URI == uri
		if okDef {
			okDef = zzSameRange(loc.Range, zzLspRange(d.Name.Range))
		}
		zzvrt.Assert(zzvrt.Implies(inside(u.Range), okDef), "C19:definition-inside-a-variable-use-is-its-declaration")
	}
	for _, f := range analysis.ZZFnCalls(prog) {
		anywhere = zzvrt.Or(anywhere, closed(f.Caller.Range))
		res, known := analysis.Builtins[f.Caller.Name]
		if !known {
			continue
		}
		okFn := hover != nil && strings.HasPrefix(hover.Contents.Value, "`"+f.Caller.Name+"(") && strings.Contains(hover.Contents.Value, strings.Join(res.GetParams(), ", "))
		zzvrt.Assert(zzvrt.Implies(inside(f.Caller.Range), okFn), "C19:hover-on-a-builtin-shows-that-function")
	}
	zzvrt.Assert(zzvrt.Implies(zzvrt.Not(anywhere), hover == nil && loc == nil), "C19:nothing-elsewhere")
	// document symbols: one per distinct declared variable, with its type and the range of its name
	var sy any
	_ = zzNotifications(func() {
		sy = Handle(zzRequest("textDocument/documentSymbol", DocumentSymbolParams{TextDocument: TextDocumentIdentifier{URI: uri}}), &state)
	})
	syms, _ := sy.([]DocumentSymbol)
	zzvrt.Assert(len(syms) == len(decls), "C19:one-symbol-per-declared-variable")
	for name, d := range decls {
		found := false
		for _, s := range syms {
			if s.Name == name && s.Detail == d.Type.Name && s.Kind == 13 {
				if zzSameRange(s.Range, zzLspRange(d.Name.Range)) && zzSameRange(s.SelectionRange, zzLspRange(d.Name.Range)) {
					found = true
				}
			}
		}
		zzvrt.Assert(found, "C19:symbol-names-the-declaration")
	}
	zzvrt.Reach("c19-nav-end")
}

// ZZC19Versions: a history on one document whose version numbers are given by the editor
// (any integers: an editor restarts its numbering when a file is closed and opened again).
// After open(v1, text A), change(v2, text B), open(v3, text C) the server answers from C and
// publishes C's diagnostics, whatever v1, v2, v3 are.
func ZZC19Versions(a, b, c string) {
	ta, tb, tc := zzTexts[int(a[0]-'0')], zzTexts[int(b[0]-'0')], zzTexts[int(c[0]-'0')]
	v1 := int32(zzvrt.Int("v1", 0, 1<<20))
	v2 := int32(zzvrt.Int("v2", 0, 1<<20))
	v3 := int32(zzvrt.Int("v3", 0, 1<<20))
	uri := zzURIs[0]
	state := InitialState()
	var last []PublishDiagnosticsParams
	step := func(req jsonrpc2.Request) {
		last = zzNotifications(func() { Handle(req, &state) })
	}
	step(zzRequest("textDocument/didOpen", DidOpenTextDocumentParams{TextDocument: TextDocumentItem{URI: uri, LanguageID: "numscript", Version: v1, Text: ta}}))
	step(zzRequest("textDocument/didChange", DidChangeTextDocumentParams{
		TextDocument:   VersionedTextDocumentIdentifier{TextDocumentIdentifier: TextDocumentIdentifier{URI: uri}, Version: v2},
		ContentChanges: []TextDocumentContentChangeEvent{{Text: tb}}}))
	step(zzRequest("textDocument/didOpen", DidOpenTextDocumentParams{TextDocument: TextDocumentItem{URI: uri, LanguageID: "numscript", Version: v3, Text: tc}}))
	doc, ok := state.documents[uri]
	zzvrt.Assert(ok && doc.Text == tc, "C19:stored-text-is-the-latest")
	fresh := analysis.CheckSource(tc)
	zzvrt.Assert(len(last) == 1 && last[0].URI == uri && len(last[0].Diagnostics) == len(fresh.Diagnostics), "C19:published-diagnostics-are-the-fresh-analysis-of-the-latest-text")
	zzvrt.Reach("c19-versions-end")
}

package cmd

import (
	"context"
	"math/big"
	"strings"

	"github.com/formancehq/numscript/internal/analysis"
	"github.com/formancehq/numscript/internal/interpreter"
	"github.com/formancehq/numscript/internal/parser"
	"github.com/formancehq/numscript/internal/zzvrt"
)

func zzItoa(i int) string {
	if i == 0 {
		return "0"
	}
	s := ""
	for i > 0 {
		s = string(rune('0'+i%10)) + s
		i /= 10
	}
	return s
}

// ZZC20Check: `numscript check FILE` exits non-zero exactly when the file has
// an error-severity diagnostic and prints every diagnostic with its position.
func ZZC20Check(text string) {
	path := zzvrt.TempFile("script.num", text)
	out := zzvrt.CLI(func() { check(path) })
	res := analysis.CheckSource(text)
	// counted from the diagnostics themselves (not through the helper the command uses)
	errs := 0
	for _, d := range res.Diagnostics {
		if d.Kind.Severity() == analysis.ErrorSeverity {
			errs++
		}
	}
	zzvrt.Assert(res.GetErrorsCount() == errs, "C20:library-error-count-is-the-number-of-error-diagnostics")
	zzvrt.Note("errors=" + zzItoa(errs) + " diagnostics=" + zzItoa(len(res.Diagnostics)))
	zzvrt.Assert(out.Exited == (errs != 0), "C20:check-exits-nonzero-exactly-on-errors")
	if out.Exited {
		zzvrt.Assert(out.Code == 1, "C20:check-exit-status")
	}
	if errs == 1 {
		zzvrt.Assert(strings.Contains(out.Stdout, "Found 1 error"), "C20:check-prints-the-number-of-errors")
	} else if errs > 1 {
		zzvrt.Assert(strings.Contains(out.Stdout, "Found "+zzItoa(errs)+" errors"), "C20:check-prints-the-number-of-errors")
	} else {
		zzvrt.Assert(strings.Contains(out.Stdout, "No errors found"), "C20:check-prints-the-number-of-errors")
	}
	for _, d := range res.Diagnostics {
		loc := path + ":" + zzItoa(d.Range.Start.Line) + ":" + zzItoa(d.Range.Start.Character) + " - "
		zzvrt.Assert(strings.Contains(out.Stdout, loc), "C20:check-prints-every-diagnostic-position")
		zzvrt.Assert(strings.Contains(out.Stdout, d.Kind.Message()), "C20:check-prints-every-diagnostic-message")
	}
	zzvrt.Reach("c20-check-end")
}

// ZZC20Run: the same inputs through each channel print the library's result.
// spec: "name=num|mon:ASSET|text:VALUE;..." for variables; accounts: comma separated names with symbolic USD balances.
type zzNoScript struct {
	Variables map[string]string            `json:"variables"`
	Meta      interpreter.AccountsMetadata `json:"metadata"`
	Balances  interpreter.Balances         `json:"balances"`
}

type zzVarsOnly struct {
	Variables map[string]string `json:"variables"`
}

type zzScriptVars struct {
	Script    string            `json:"script"`
	Variables map[string]string `json:"variables"`
}

func ZZC20Run(channel, script, varspec, accounts, metaSpec, flag string) {
	vars := map[string]string{}
	if varspec != "" {
		for _, part := range strings.Split(varspec, ";") {
			kv := strings.Split(part, "=")
			k := strings.Split(kv[1], ":")
			switch k[0] {
			case "num":
				vars[kv[0]] = zzvrt.Dec(zzvrt.BigInt("var_" + kv[0]))
			case "mon":
				vars[kv[0]] = k[1] + " " + zzvrt.Dec(zzvrt.BigInt("var_"+kv[0]))
			case "text":
				vars[kv[0]] = k[1]
			}
		}
	}
	mkBalances := func() interpreter.Balances {
		b := interpreter.Balances{}
		if accounts == "" {
			return b
		}
		for _, acc := range strings.Split(accounts, ",") {
			b[acc] = interpreter.AccountBalance{"USD": new(big.Int).Set(zzBal(acc))}
		}
		return b
	}
	meta := interpreter.AccountsMetadata{}
	if metaSpec != "" {
		for _, kv := range strings.Split(metaSpec, ",") {
			p := strings.Split(kv, "=")
			ak := strings.Split(p[0], ".")
			if meta[ak[0]] == nil {
				meta[ak[0]] = interpreter.AccountMetadata{}
			}
			meta[ak[0]][ak[1]] = p[1]
		}
	}

	// what the library computes
	flags := map[string]struct{}{}
	if flag == "1" {
		flags[interpreter.ExperimentalOverdraftFunctionFeatureFlag] = struct{}{}
	}
	pr := parser.Parse(script)
	var want *interpreter.ExecutionResult
	var wantErr interpreter.InterpreterError
	if len(pr.Errors) == 0 {
		want, wantErr = interpreter.RunProgram(context.Background(), pr.Value, vars, interpreter.StaticStore{Balances: mkBalances(), Meta: meta}, flags)
	}

	// the command
	runVariablesOpt, runBalancesOpt, runMetaOpt, runRawOpt, runStdinFlag = "", "", "", "", false
	runOutFormatOpt = OutputFormatJson
	overdraftFeatureFlag = flag == "1"
	path := ""
	in := inputOpts{Script: script, Variables: vars, Meta: meta, Balances: mkBalances()}
	switch channel {
	case "raw":
		runRawOpt = zzvrt.JSONString(in)
	case "stdin":
		runStdinFlag = true
		zzvrt.SetStdinJSON(in)
	case "files":
		path = zzvrt.TempFile("script.num", script)
		runVariablesOpt = zzvrt.JSONFile("vars.json", vars)
		runBalancesOpt = zzvrt.JSONFile("balances.json", mkBalances())
		runMetaOpt = zzvrt.JSONFile("meta.json", meta)
	// mixed channels: each document carries only part of the inputs, the command merges them
	case "path+stdin":
		path = zzvrt.TempFile("script.num", script)
		runStdinFlag = true
		zzvrt.SetStdinJSON(zzNoScript{Variables: vars, Meta: meta, Balances: mkBalances()})
	case "files+stdin-vars":
		path = zzvrt.TempFile("script.num", script)
		runBalancesOpt = zzvrt.JSONFile("balances.json", mkBalances())
		runMetaOpt = zzvrt.JSONFile("meta.json", meta)
		runStdinFlag = true
		zzvrt.SetStdinJSON(zzVarsOnly{Variables: vars})
	case "raw+files":
		runRawOpt = zzvrt.JSONString(zzScriptVars{Script: script, Variables: vars})
		runBalancesOpt = zzvrt.JSONFile("balances.json", mkBalances())
		runMetaOpt = zzvrt.JSONFile("meta.json", meta)
	case "path+raw":
		path = zzvrt.TempFile("script.num", script)
		runRawOpt = zzvrt.JSONString(zzNoScript{Variables: vars, Meta: meta, Balances: mkBalances()})
	}
	out := zzvrt.CLI(func() { run(path) })

	if len(pr.Errors) != 0 {
		zzvrt.Assert(out.Exited && out.Code == 1, "C20:run-exits-nonzero-on-parse-errors")
		zzvrt.Reach("c20-run-end")
		return
	}
	if wantErr != nil {
		zzvrt.Note("library error")
		zzvrt.Assert(out.Exited && out.Code == 1, "C20:run-exits-nonzero-when-the-library-fails")
		zzvrt.Assert(zzvrt.HasPrefix(out.Stderr, wantErr.Error()), "C20:run-prints-the-error-message")
		zzvrt.Assert(out.Stdout == "", "C20:run-prints-no-result-on-error")
	} else {
		zzvrt.Assert(!out.Exited, "C20:run-succeeds-when-the-library-succeeds")
		zzvrt.Assert(zzvrt.StdoutIsJSONOf(want), "C20:run-prints-exactly-the-library-result")
	}
	zzvrt.Reach("c20-run-end")
}

var zzBalCache = map[string]*big.Int{}

func zzBal(acc string) *big.Int {
	return zzvrt.BigIntOnce("bal_" + acc)
}

package numscript

import (
	"context"
	"strings"

	"github.com/formancehq/numscript/internal/zzvrt"
)

func zzOneOf(x string, set string) bool {
	if set == "*" {
		// any outcome: only panic-freedom and atomicity are asserted for this script
		return true
	}
	for _, s := range strings.Split(set, "|") {
		if s == x {
			return true
		}
	}
	return false
}

// ZZC12Var: the variable `name` (declared in the script with any type) receives
// a text of n arbitrary bytes. allowed = "|"-separated error classes that name
// the cause for this type ("" = must succeed).
func ZZC12Var(script, name, nbytes, allowed string) {
	pr := Parse(script)
	if len(pr.GetParsingErrors()) != 0 {
		zzvrt.Reach("skipped-parse-error")
		return
	}
	n := int(zzAtoi(nbytes))
	bs := make([]byte, n)
	for i := 0; i < n; i++ {
		bs[i] = zzvrt.Byte("ch" + zzItoa(i))
	}
	vars := VariablesMap{name: string(bs)}
	res, err := pr.Run(context.Background(), vars, StaticStore{})
	cls := zzErrClass(err)
	zzvrt.Note("result=" + cls)
	if err != nil {
		zzvrt.Assert(zzZeroResult(res), "C12:atomic-failure")
		zzvrt.Assert(zzOneOf(cls, allowed), "C12:error-names-the-cause")
	}
	zzvrt.Reach("c12-var-end")
}

// ZZC12Expect: concrete trigger, expected error class ("" = success). Amounts are symbolic where the varspec says so.
func ZZC12Expect(script, varspec, drop, expect string) {
	e := zzPrepare(script, varspec)
	if len(e.pr.GetParsingErrors()) != 0 {
		zzvrt.Reach("skipped-parse-error")
		return
	}
	if drop != "" {
		delete(e.varsMap, drop)
	}
	// "_meta=acc.key:value,...": account metadata held by the store
	if ms := e.spec["_meta"]; ms != "" {
		e.store.Meta = zzParseMeta(strings.ReplaceAll(ms, ":", "="))
	}
	res, err := e.pr.Run(context.Background(), e.varsMap, e.store)
	cls := zzErrClass(err)
	zzvrt.Note("result=" + cls)
	if err != nil {
		zzvrt.Assert(zzZeroResult(res), "C12:atomic-failure")
	}
	zzvrt.Assert(zzOneOf(cls, expect), "C12:error-names-the-cause")
	zzvrt.Reach("c12-expect-end")
}

// ZZC12Fault: the store fails at its k-th call, for every k.
func ZZC12Fault(script, varspec, metaSpec, flags string) {
	e := zzPrepare(script, varspec)
	if len(e.pr.GetParsingErrors()) != 0 {
		zzvrt.Reach("skipped-parse-error")
		return
	}
	ff := zzFlags(flags)
	probe := zzNewStore("exact", e, zzParseMeta(metaSpec))
	_, _ = e.pr.RunWithFeatureFlags(context.Background(), e.varsMap, probe, ff)
	total := probe.calls
	zzvrt.Note("store calls=" + zzItoa(total))
	for k := 1; k <= total; k++ {
		st := zzNewStore("exact", e, zzParseMeta(metaSpec))
		st.failAt = k
		res, err := e.pr.RunWithFeatureFlags(context.Background(), e.varsMap, st, ff)
		if st.calls < k {
			// this execution took a path with fewer store calls: the fault was not injected
			continue
		}
		zzvrt.Assert(err != nil, "C12:store-failure-surfaces")
		if err != nil {
			cls := zzErrClass(err)
			zzvrt.Assert(cls == "QueryBalanceError" || cls == "QueryMetadataError", "C12:store-failure-class")
			zzvrt.Assert(strings.HasPrefix(err.Error(), "store down"), "C12:store-message-carried")
			zzvrt.Assert(zzZeroResult(res), "C12:atomic-failure")
		}
	}
	zzvrt.Reach("c12-fault-end")
}

// ZZC12Nil: stores that answer with nil maps; only panic-freedom and atomicity are claimed.
func ZZC12Nil(script, varspec string) {
	e := zzPrepare(script, varspec)
	if len(e.pr.GetParsingErrors()) != 0 {
		zzvrt.Reach("skipped-parse-error")
		return
	}
	res, err := e.pr.Run(context.Background(), e.varsMap, StaticStore{})
	if err != nil {
		zzvrt.Assert(zzZeroResult(res), "C12:atomic-failure")
	}
	bal := Balances{}
	for _, acc := range e.accounts {
		bal[acc] = nil
	}
	res, err = e.pr.Run(context.Background(), e.varsMap, StaticStore{Balances: bal})
	if err != nil {
		zzvrt.Assert(zzZeroResult(res), "C12:atomic-failure")
	}
	zzvrt.Reach("c12-nil-end")
}

// ZZC02AccountText: an account variable receives arbitrary text (n symbolic
// bytes, or a given text); whenever execution succeeds every posting names real
// accounts: never the empty name, never the internal kept marker.
func ZZC02AccountText(role, nbytes, fixed string) {
	var text string
	if fixed != "" {
		text = fixed
	} else {
		n := int(zzAtoi(nbytes))
		bs := make([]byte, n)
		for i := 0; i < n; i++ {
			bs[i] = zzvrt.Byte("ch" + zzItoa(i))
		}
		text = string(bs)
	}
	script := "vars {\n  account $x\n}\nsend [USD 5] (\n  source = @world\n  destination = $x\n)"
	if role == "source" {
		script = "vars {\n  account $x\n}\nsend [USD 5] (\n  source = $x allowing unbounded overdraft\n  destination = @d\n)"
	}
	if role == "kept-mix" {
		script = "vars {\n  account $x\n}\nsend [USD 5] (\n  source = @world\n  destination = { max [USD 2] to $x remaining to @d }\n)"
	}
	pr := Parse(script)
	res, err := pr.Run(context.Background(), VariablesMap{"x": text}, StaticStore{})
	zzvrt.Note("result=" + zzErrClass(err))
	if err != nil {
		zzvrt.Assert(zzZeroResult(res), "C02:atomic-failure")
		zzvrt.Reach("c02-account-text-rejected")
		return
	}
	total := 0
	for _, p := range res.Postings {
		zzvrt.Assert(p.Source != "" && p.Destination != "", "C02:real-accounts")
		zzvrt.Assert(p.Source != "<kept>" && p.Destination != "<kept>", "C02:real-accounts")
		total++
	}
	zzvrt.Assert(total >= 1, "C02:five-units-are-posted")
	zzvrt.Reach("c02-account-text-end")
}

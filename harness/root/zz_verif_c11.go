package numscript

import (
	"context"
	"math/big"
	"strings"

	"github.com/formancehq/numscript/internal/zzvrt"
)

func zzFlags(flags string) map[string]struct{} {
	ff := map[string]struct{}{}
	for _, f := range strings.Split(flags, ",") {
		if f != "" {
			ff[f] = struct{}{}
		}
	}
	return ff
}

// ZZC11 mode: purity | determinism | flags | reentrancy | shared | answers | history
func ZZC11(mode, script, varspec, metaSpec, flags string) {
	e := zzPrepare(script, varspec)
	if len(e.pr.GetParsingErrors()) != 0 {
		zzvrt.Reach("skipped-parse-error")
		return
	}
	// "_drop=v1,v2": variables the caller forgot to pass
	for _, name := range strings.Split(e.spec["_drop"], ",") {
		if name != "" {
			delete(e.varsMap, name)
		}
	}
	var meta AccountsMetadata
	if mode != "history" {
		meta = zzParseMeta(metaSpec)
	}
	ctx := context.Background()
	switch mode {
	case "purity":
		// the caller's store also holds a row for @world (a real ledger does): it is the
		// caller's, whatever the run thinks of it
		if _, has := e.store.Balances["world"]; !has {
			w := zzvrt.BigInt("bal_world_USD")
			e.start[zzKey("world", "USD")] = w
			e.store.Balances["world"] = AccountBalance{"USD": new(big.Int).Set(w)}
		}
		// the repo's own StaticStore and a harness store that hands out its own maps
		store := StaticStore{Balances: e.store.Balances, Meta: meta}
		varsBefore := map[string]string{}
		for k, v := range e.varsMap {
			varsBefore[k] = v
		}
		ff := zzFlags(flags)
		zzvrt.Freeze(e.pr, e.varsMap, store, ff)
		_, err := e.pr.RunWithFeatureFlags(ctx, e.varsMap, store, ff)
		zzvrt.Note("result=" + zzErrClass(err))
		zzvrt.Assert(zzvrt.FrozenWrites() == 0, "C11:run-writes-only-its-own-objects")
		// explicit comparison of what the caller can observe
		zzvrt.Assert(len(e.varsMap) == len(varsBefore), "C11:variables-map-unchanged")
		for k, v := range varsBefore {
			w, ok := e.varsMap[k]
			zzvrt.Assert(ok, "C11:variables-map-unchanged")
			if ok {
				zzvrt.Assert(zzvrt.StrEq(v, w), "C11:variables-map-unchanged")
			}
		}
		nAcc := 0
		for acc, m := range store.Balances {
			nAcc++
			for as, v := range m {
				st, ok := e.start[zzKey(acc, as)]
				zzvrt.Assert(ok, "C11:store-balances-unchanged")
				if ok {
					zzvrt.Assert(zzvrt.Eq(v, st), "C11:store-balances-unchanged")
				}
			}
		}
		nStart := 0
		for range e.start {
			nStart++
		}
		nNow := 0
		for _, m := range store.Balances {
			nNow += len(m)
		}
		zzvrt.Assert(nNow == nStart, "C11:store-balances-unchanged")
		for acc, m := range zzParseMeta(metaSpec) {
			for k, v := range m {
				zzvrt.Assert(store.Meta[acc][k] == v, "C11:store-metadata-unchanged")
			}
		}
		zzvrt.Reach("c11-purity-end")

	case "determinism":
		ff := zzFlags(flags)
		// with metadata in the store: a store that volunteers all it has (so that entries
		// next to the requested ones are in the maps the run walks)
		kind := "exact"
		if metaSpec != "" {
			kind = "superset"
		}
		s1 := zzNewStore(kind, e, meta)
		r1, e1 := e.pr.RunWithFeatureFlags(ctx, e.varsMap, s1, ff)
		s2 := zzNewStore(kind, e, meta)
		zzvrt.MapOrder(true)
		r2, e2 := e.pr.RunWithFeatureFlags(ctx, e.varsMap, s2, ff)
		zzvrt.MapOrder(false)
		zzvrt.Note("result=" + zzErrClass(e1))
		zzSameOutcome(zzOutcome{r1, e1}, zzOutcome{r2, e2}, "C11:deterministic")
		zzvrt.Reach("c11-determinism-end")

	case "flags":
		hasOverdraftFn := strings.Contains(script, "overdraft(")
		sets := []string{"", "experimental-overdraft-function", "some-unknown-flag", "experimental-overdraft-function,some-unknown-flag"}
		outs := make([]zzOutcome, len(sets))
		for i, fs := range sets {
			st := zzNewStore("exact", e, meta)
			var ff map[string]struct{}
			if fs != "" || i > 0 {
				ff = zzFlags(fs)
			}
			r, err := e.pr.RunWithFeatureFlags(ctx, e.varsMap, st, ff)
			outs[i] = zzOutcome{r, err}
		}
		// Run() is RunWithFeatureFlags without flags
		st := zzNewStore("exact", e, meta)
		r, err := e.pr.Run(ctx, e.varsMap, st)
		zzSameOutcome(outs[0], zzOutcome{r, err}, "C11:run-equals-no-flags")
		// an unknown flag changes nothing
		zzSameOutcome(outs[0], outs[2], "C11:unknown-flag-is-inert")
		zzSameOutcome(outs[1], outs[3], "C11:unknown-flag-is-inert")
		if hasOverdraftFn {
			zzvrt.Assert(zzErrClass(outs[0].err) == "ExperimentalFeature", "C11:overdraft-function-gated")
		} else {
			zzSameOutcome(outs[0], outs[1], "C11:flag-changes-only-its-feature")
		}
		zzvrt.Reach("c11-flags-end")

	case "history":
		// the outcome does not depend on what the process ran before: the same run before and
		// after a run of another script (metaSpec carries that script, its variables get the value 7)
		ff := zzFlags(flags)
		r1, e1 := e.pr.RunWithFeatureFlags(ctx, e.varsMap, zzNewStore("exact", e, AccountsMetadata{}), ff)
		other := Parse(metaSpec)
		ov := VariablesMap{}
		for _, d := range other.parseResult.Value.Vars {
			if d.Name != nil {
				ov[d.Name.Name] = "USD 7"
			}
		}
		_, _ = other.Run(ctx, ov, StaticStore{})
		r2, e2 := e.pr.RunWithFeatureFlags(ctx, e.varsMap, zzNewStore("exact", e, AccountsMetadata{}), ff)
		zzvrt.Note("result=" + zzErrClass(e1))
		zzSameOutcome(zzOutcome{r1, e1}, zzOutcome{r2, e2}, "C11:independent-of-earlier-runs")
		zzvrt.Reach("c11-history-end")

	case "answers":
		// a store answering exactly what is asked, in maps of its own that it keeps: what it
		// handed out is the same after the run (the run may keep them, it may not write to them)
		ff := zzFlags(flags)
		st := zzNewStore("exact", e, meta)
		_, err := e.pr.RunWithFeatureFlags(ctx, e.varsMap, st, ff)
		zzvrt.Note("result=" + zzErrClass(err))
		for i, h := range st.handed {
			was := st.handedCopy[i]
			zzvrt.Assert(len(h) == len(was), "C11:store-answers-unchanged")
			for acc, am := range was {
				now, ok := h[acc]
				zzvrt.Assert(ok && len(now) == len(am), "C11:store-answers-unchanged")
				for k, v := range am {
					zzvrt.Assert(now[k] == v, "C11:store-answers-unchanged")
				}
			}
		}
		// the same for balances: a store that hands out the very numbers it keeps finds them
		// unchanged afterwards (the run may read them, it may not compute in them)
		st2 := zzNewStore("interned", e, meta)
		_, _ = e.pr.RunWithFeatureFlags(ctx, e.varsMap, st2, ff)
		for acc, m := range st2.truth {
			for as, v := range m {
				was, ok := e.start[zzKey(acc, as)]
				zzvrt.Assert(ok, "C11:store-numbers-unchanged")
				if ok {
					zzvrt.Assert(zzvrt.Eq(v, was), "C11:store-numbers-unchanged")
				}
			}
		}
		zzvrt.Reach("c11-answers-end")

	case "shared":
		// both calls over ONE bundled static store (its maps are handed out by reference)
		ff := zzFlags(flags)
		outs := make([]zzOutcome, 2)
		store := StaticStore{Balances: e.store.Balances, Meta: meta}
		zzvrt.Freeze(e.pr, e.varsMap, store, ff)
		zzvrt.Concurrently(2, func(i int) {
			r, err := e.pr.RunWithFeatureFlags(ctx, e.varsMap, store, ff)
			outs[i] = zzOutcome{r, err}
		})
		zzvrt.Assert(zzvrt.FrozenWrites() == 0, "C11:concurrent-runs-share-no-written-state")
		zzSameOutcome(outs[0], outs[1], "C11:concurrent-runs-agree")
		zzvrt.Reach("c11-shared-end")

	case "reentrancy":
		ff := zzFlags(flags)
		outs := make([]zzOutcome, 2)
		stores := []*zzStore{zzNewStore("exact", e, meta), zzNewStore("exact", e, meta)}
		zzvrt.Freeze(e.pr, e.varsMap, ff)
		zzvrt.Concurrently(2, func(i int) {
			r, err := e.pr.RunWithFeatureFlags(ctx, e.varsMap, stores[i], ff)
			outs[i] = zzOutcome{r, err}
		})
		zzvrt.Assert(zzvrt.FrozenWrites() == 0, "C11:concurrent-runs-share-no-written-state")
		zzSameOutcome(outs[0], outs[1], "C11:concurrent-runs-agree")
		zzvrt.Reach("c11-reentrancy-end")
	}
}

var _ = big.NewInt

package numscript

import (
	"context"
	"errors"
	"math/big"
	"strings"

	"github.com/formancehq/numscript/internal/zzvrt"
)

// zzStore answers balance queries over one truth table in four different,
// equally legitimate ways.
type zzStore struct {
	kind     string // exact | sparse | superset | static
	truth    map[string]map[string]*big.Int
	meta     AccountsMetadata
	static   Balances
	sawWorld bool
	calls    int
	failAt   int // 1-based call index that fails (0 = never)
	nilMaps  bool
	// every metadata answer handed out, with a copy taken at that moment (C11: answers are left alone)
	handed     []AccountsMetadata
	handedCopy []AccountsMetadata
}

func (s *zzStore) GetBalances(_ context.Context, q BalanceQuery) (Balances, error) {
	s.calls++
	if s.failAt == s.calls {
		return nil, errors.New("store down (balances)")
	}
	for acc := range q {
		if acc == "world" {
			s.sawWorld = true
		}
	}
	switch s.kind {
	case "static":
		return s.static, nil
	case "superset":
		out := Balances{}
		// what nobody asked for comes FIRST in the answer (the VM walks maps in insertion order)
		if m, ok := s.truth["world"]; ok {
			ab := AccountBalance{}
			for as, v := range m {
				ab[as] = new(big.Int).Set(v)
			}
			out["world"] = ab
		}
		for acc, m := range s.truth {
			if acc == "world" {
				continue
			}
			ab := AccountBalance{}
			for as, v := range m {
				ab[as] = new(big.Int).Set(v)
			}
			out[acc] = ab
		}
		return out, nil
	}
	out := Balances{}
	for acc, assets := range q {
		ab := AccountBalance{}
		for _, as := range assets {
			v, ok := s.truth[acc][as]
			if !ok {
				if s.kind == "exact" {
					ab[as] = big.NewInt(0)
				}
				continue
			}
			if s.kind == "sparse" && v.Sign() == 0 {
				continue
			}
			if s.kind == "interned" {
				// the store's own object, shared by every entry holding that amount
				ab[as] = v
				continue
			}
			ab[as] = new(big.Int).Set(v)
		}
		if s.kind == "sparse" && len(ab) == 0 {
			continue
		}
		out[acc] = ab
	}
	return out, nil
}

func (s *zzStore) GetAccountsMetadata(_ context.Context, q MetadataQuery) (AccountsMetadata, error) {
	s.calls++
	if s.failAt == s.calls {
		return nil, errors.New("store down (metadata)")
	}
	out := AccountsMetadata{}
	if s.kind == "exact" || s.kind == "sparse" {
		for acc, keys := range q {
			m := AccountMetadata{}
			for _, k := range keys {
				if v, ok := s.meta[acc][k]; ok {
					m[k] = v
				}
			}
			if len(m) > 0 || s.kind == "exact" {
				out[acc] = m
			}
		}
		s.handed = append(s.handed, out)
		s.handedCopy = append(s.handedCopy, zzCloneMeta(out))
		return out, nil
	}
	for acc, m := range s.meta {
		c := AccountMetadata{}
		for k, v := range m {
			c[k] = v
		}
		out[acc] = c
	}
	return out, nil
}

func zzCloneMeta(m AccountsMetadata) AccountsMetadata {
	out := AccountsMetadata{}
	for acc, am := range m {
		c := AccountMetadata{}
		for k, v := range am {
			c[k] = v
		}
		out[acc] = c
	}
	return out
}

func zzNewStore(kind string, e *zzEnv, meta AccountsMetadata) *zzStore {
	s := &zzStore{kind: kind, truth: map[string]map[string]*big.Int{}, meta: meta}
	priv := map[*big.Int]*big.Int{}
	for k, v := range e.start {
		if kind == "interned" {
			// one private object per distinct harness number: aliased entries keep sharing it
			c, ok := priv[v]
			if !ok {
				c = new(big.Int).Set(v)
				priv[v] = c
			}
			v = c
		}
		aa := strings.Split(k, "/")
		acc, as := aa[0], strings.Join(aa[1:], "/")
		if s.truth[acc] == nil {
			s.truth[acc] = map[string]*big.Int{}
		}
		s.truth[acc][as] = v
	}
	if kind == "static" {
		s.static = Balances{}
		for acc, m := range s.truth {
			ab := AccountBalance{}
			for as, v := range m {
				ab[as] = new(big.Int).Set(v)
			}
			s.static[acc] = ab
		}
	}
	return s
}

func zzParseMeta(spec string) AccountsMetadata {
	// "acc.key=value,acc.key=value"
	out := AccountsMetadata{}
	if spec == "" {
		return out
	}
	for _, kv := range strings.Split(spec, ",") {
		p := strings.Split(kv, "=")
		ak := strings.Split(p[0], ".")
		if out[ak[0]] == nil {
			out[ak[0]] = AccountMetadata{}
		}
		out[ak[0]][ak[1]] = p[1]
	}
	return out
}

type zzOutcome struct {
	res ExecutionResult
	err InterpreterError
}

func zzSameOutcome(a, b zzOutcome, id string) {
	zzvrt.Assert((a.err == nil) == (b.err == nil), id+":same-success")
	if a.err != nil || b.err != nil {
		if a.err != nil && b.err != nil {
			zzvrt.Assert(zzErrClass(a.err) == zzErrClass(b.err), id+":same-error-class")
			zzvrt.Assert(zzvrt.StrEq(a.err.Error(), b.err.Error()), id+":same-error-text")
		}
		return
	}
	zzvrt.Assert(len(a.res.Postings) == len(b.res.Postings), id+":same-postings")
	if len(a.res.Postings) == len(b.res.Postings) {
		for i, p := range a.res.Postings {
			q := b.res.Postings[i]
			zzvrt.Assert(p.Source == q.Source && p.Destination == q.Destination && p.Asset == q.Asset, id+":same-postings")
			zzvrt.Assert(zzvrt.Eq(p.Amount, q.Amount), id+":same-amounts")
		}
	}
	zzvrt.Assert(len(a.res.Metadata) == len(b.res.Metadata), id+":same-tx-meta")
	for k, v := range a.res.Metadata {
		w, ok := b.res.Metadata[k]
		zzvrt.Assert(ok, id+":same-tx-meta")
		if ok {
			zzvrt.Assert(zzvrt.StrEq(v.String(), w.String()), id+":same-tx-meta")
		}
	}
	na, nb := 0, 0
	for acc, m := range a.res.AccountsMetadata {
		for k, v := range m {
			na++
			w, ok := b.res.AccountsMetadata[acc][k]
			zzvrt.Assert(ok, id+":same-account-meta")
			if ok {
				zzvrt.Assert(zzvrt.StrEq(v, w), id+":same-account-meta")
			}
		}
	}
	for _, m := range b.res.AccountsMetadata {
		nb += len(m)
	}
	zzvrt.Assert(na == nb, id+":same-account-meta")
}

// ZZC10: the same script against four store behaviours over one symbolic truth table.
func ZZC10(script, varspec, metaSpec, flags string) {
	e := zzPrepare(script, varspec)
	if len(e.pr.GetParsingErrors()) != 0 {
		zzvrt.Reach("skipped-parse-error")
		return
	}
	// world has a balance too; it must never matter nor be asked for
	e.start[zzKey("world", "USD")] = zzvrt.BigInt("bal_world_USD")
	ff := map[string]struct{}{}
	for _, f := range strings.Split(flags, ",") {
		if f != "" {
			ff[f] = struct{}{}
		}
	}
	kinds := []string{"exact", "sparse", "superset", "static", "interned"}
	outs := make([]zzOutcome, len(kinds))
	for i, k := range kinds {
		st := zzNewStore(k, e, zzParseMeta(metaSpec))
		res, err := e.pr.RunWithFeatureFlags(context.Background(), e.varsMap, st, ff)
		outs[i] = zzOutcome{res, err}
		zzvrt.Note(k + " result=" + zzErrClass(err))
		if err == nil {
			zzNotePostings(res.Postings)
		}
		if k == "exact" {
			zzvrt.Assert(!st.sawWorld, "C10:world-never-requested")
		}
	}
	zzSameOutcome(outs[0], outs[1], "C10:exact-vs-sparse")
	zzSameOutcome(outs[0], outs[2], "C10:exact-vs-superset")
	zzSameOutcome(outs[0], outs[3], "C10:exact-vs-static")
	zzSameOutcome(outs[0], outs[4], "C10:exact-vs-interned")
	zzvrt.Reach("c10-end")
}

package numscript

import (
	"context"
	"math/big"
	"strings"

	"github.com/formancehq/numscript/internal/parser"
	"github.com/formancehq/numscript/internal/zzvrt"
)

func zzStoreFrom(cur map[string]*big.Int) StaticStore {
	bal := Balances{}
	for k, v := range cur {
		aa := strings.Split(k, "/")
		ab, ok := bal[aa[0]]
		if !ok {
			ab = AccountBalance{}
			bal[aa[0]] = ab
		}
		// fresh objects: the interpreter must not be able to alias the harness's numbers
		ab[strings.Join(aa[1:], "/")] = new(big.Int).Set(v)
	}
	return StaticStore{Balances: bal, Meta: AccountsMetadata{}}
}

// ZZC09: header = the vars block (may be empty), stmts = statements separated
// by "\n;;\n". The whole script must behave like its statements run one after
// another, each on the balances left by the previous ones.
func ZZC09(header, stmts, varspec string) {
	parts := strings.Split(stmts, "\n;;\n")
	whole := header + strings.Join(parts, "\n")
	e := zzPrepare(whole, varspec)
	if len(e.pr.GetParsingErrors()) != 0 {
		zzvrt.Reach("skipped-parse-error")
		return
	}
	zero := big.NewInt(0)
	// stated bound: overdraft limits >= 0 (collected by a dry oracle run; the oracle's results are not used)
	e.reference()
	for _, lim := range e.granted {
		zzvrt.Assume(zzvrt.Le(zero, lim))
	}

	cur := map[string]*big.Int{}
	for k, v := range e.start {
		cur[k] = v
	}
	get := func(acc, as string) *big.Int {
		if v, ok := cur[zzKey(acc, as)]; ok {
			return v
		}
		return zero
	}

	resW, errW := e.pr.Run(context.Background(), e.varsMap, zzStoreFrom(cur))

	var seq []Posting
	seqTx := map[string]string{}
	seqAcc := map[string]string{}
	failedAt := -1
	failClass := ""
	for i, stmt := range parts {
		pr := Parse(header + stmt)
		res, err := pr.Run(context.Background(), e.varsMap, zzStoreFrom(cur))
		if err != nil {
			failedAt = i
			failClass = zzErrClass(err)
			break
		}
		seq = append(seq, res.Postings...)
		for _, p := range res.Postings {
			cur[zzKey(p.Source, p.Asset)] = new(big.Int).Sub(get(p.Source, p.Asset), p.Amount)
			cur[zzKey(p.Destination, p.Asset)] = new(big.Int).Add(get(p.Destination, p.Asset), p.Amount)
		}
		for k, v := range res.Metadata {
			seqTx[k] = v.String()
		}
		for acc, m := range res.AccountsMetadata {
			for k, v := range m {
				seqAcc[acc+"\x00"+k] = v
			}
		}
		// save reservations lower what later statements may see
		for _, st := range pr.parseResult.Value.Statements {
			sv, ok := st.(*parser.SaveStatement)
			if !ok {
				continue
			}
			acc := e.accountOf(sv.Amount)
			switch x := sv.SentValue.(type) {
			case *parser.SentValueLiteral:
				m := e.eval(x.Monetary)
				b := get(acc, m.asset)
				lowered := zzvrt.Clamp0(new(big.Int).Sub(b, m.n))
				cur[zzKey(acc, m.asset)] = zzvrt.Ite(zzvrt.Le(b, zero), b, lowered)
			case *parser.SentValueAll:
				a := e.eval(x.Asset)
				cur[zzKey(acc, a.s)] = zzvrt.Min(get(acc, a.s), zero)
			}
		}
	}

	if failedAt >= 0 {
		zzvrt.Assert(errW != nil, "C09:whole-fails-when-a-step-fails")
		if errW != nil {
			zzvrt.Assert(zzErrClass(errW) == failClass, "C09:same-failure-class")
		}
		zzvrt.Reach("c09-end-failure")
		return
	}
	zzvrt.Assert(errW == nil, "C09:whole-succeeds-when-every-step-succeeds")
	if errW != nil {
		zzvrt.Note("whole failed with " + zzErrClass(errW))
		return
	}
	zzNotePostings(resW.Postings)
	zzvrt.Assert(len(resW.Postings) == len(seq), "C09:same-number-of-postings")
	if len(resW.Postings) == len(seq) {
		for i, p := range resW.Postings {
			q := seq[i]
			zzvrt.Assert(p.Source == q.Source && p.Destination == q.Destination && p.Asset == q.Asset, "C09:same-posting-accounts")
			zzvrt.Assert(zzvrt.Eq(p.Amount, q.Amount), "C09:same-posting-amount")
		}
	}
	// metadata: later statements override key by key, everything else intact
	zzvrt.Assert(len(resW.Metadata) == len(seqTx), "C09:tx-meta-keys")
	for k, v := range resW.Metadata {
		want, ok := seqTx[k]
		zzvrt.Assert(ok, "C09:tx-meta-keys")
		if ok {
			zzvrt.Assert(zzvrt.StrEq(v.String(), want), "C09:tx-meta-last-write-wins")
		}
	}
	n := 0
	for acc, m := range resW.AccountsMetadata {
		for k, v := range m {
			n++
			want, ok := seqAcc[acc+"\x00"+k]
			zzvrt.Assert(ok, "C09:account-meta-keys")
			if ok {
				zzvrt.Assert(zzvrt.StrEq(v, want), "C09:account-meta-last-write-wins")
			}
		}
	}
	zzvrt.Assert(n == len(seqAcc), "C09:account-meta-keys")
	zzvrt.Reach("c09-end-success")
}

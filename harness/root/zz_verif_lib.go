package numscript

// Reference semantics of numscript used as the oracle of the API-level
// harnesses. It follows the property texts clause by clause (greedy
// left-to-right draw, ordered distribution, floor-and-leftmost allotments,
// first-come-first-served pairing, save reservations) and is written with the
// non-forking builders of zzvrt so that one interpreter path needs one oracle
// evaluation. It walks the parsed AST; it shares no code with the interpreter.

import (
	"math/big"
	"strings"

	"github.com/formancehq/numscript/internal/parser"
	"github.com/formancehq/numscript/internal/zzvrt"
)

type zzVal struct {
	kind   string // "account" "asset" "string" "number" "monetary" "portion" "bad"
	s      string
	n      *big.Int
	asset  string
	pn, pd int64
}

type zzDraw struct {
	acc string
	amt *big.Int
}

type zzCredit struct {
	acc  string
	kept bool
	amt  *big.Int
}

type zzEnv struct {
	pr       ParseResult
	prog     parser.Program
	vars     map[string]zzVal
	varsMap  VariablesMap
	accounts []string
	assets   []string
	start    map[string]*big.Int // acc/asset -> starting balance
	rem      map[string]*big.Int // acc/asset -> balance visible to the next statement
	store    StaticStore
	spec     map[string]string

	// accumulated expectations
	missing   bool // some statement cannot be funded (symbolic)
	negative  bool // some sent / saved amount is negative
	badAllot  bool // an allotment without remaining whose portions do not sum to one is evaluated
	unbounded string // first structural send-all rejection ("unbounded" | "allotment" | "")
	unsupported string // construct the oracle does not define: the case is skipped
	flows     []map[string]*big.Int // per statement: "src|dst" -> expected net flow
	stmtAsset []string
	draws     [][]zzDraw
	credits   [][]zzCredit
	sent      []*big.Int // per statement: amount drawn (fixed n, or total of send-all)
	granted   map[string]*big.Int // acc/asset -> largest bounded overdraft granted (nil if none)
	exempt    map[string]bool     // acc -> unbounded overdraft somewhere, or world
}

func zzKey(acc, asset string) string { return acc + "/" + asset }

func zzContains(xs []string, x string) bool {
	for _, y := range xs {
		if y == x {
			return true
		}
	}
	return false
}

func zzAddUnique(xs []string, x string) []string {
	if zzContains(xs, x) {
		return xs
	}
	return append(xs, x)
}

func zzSortStrings(xs []string) {
	for i := 1; i < len(xs); i++ {
		for j := i; j > 0 && xs[j] < xs[j-1]; j-- {
			xs[j], xs[j-1] = xs[j-1], xs[j]
		}
	}
}

func zzItoa(i int) string {
	if i == 0 {
		return "0"
	}
	neg := i < 0
	if neg {
		i = -i
	}
	s := ""
	for i > 0 {
		s = string(rune('0'+i%10)) + s
		i /= 10
	}
	if neg {
		s = "-" + s
	}
	return s
}

func zzAtoi(s string) int64 {
	var n int64
	neg := false
	for i := 0; i < len(s); i++ {
		if i == 0 && s[i] == '-' {
			neg = true
			continue
		}
		n = n*10 + int64(s[i]-'0')
	}
	if neg {
		return -n
	}
	return n
}

func zzGcd(a, b int64) int64 {
	if a < 0 {
		a = -a
	}
	for b != 0 {
		a, b = b, a%b
	}
	if a == 0 {
		return 1
	}
	return a
}

// varspec: "name=kind:value;..." with kinds
//
//	acc:<name>  asset:<A>  str:<text>  portion:<n>/<d>  num (symbolic)  numk:<k> (concrete)
//	mon:<A> (symbolic amount)  monk:<A> <k> (concrete)
func zzParseSpec(spec string) map[string]string {
	out := map[string]string{}
	if spec == "" {
		return out
	}
	for _, part := range strings.Split(spec, ";") {
		kv := strings.Split(part, "=")
		if len(kv) == 2 {
			out[kv[0]] = kv[1]
		}
	}
	return out
}

func zzPrepare(script, varspec string) *zzEnv {
	e := &zzEnv{vars: map[string]zzVal{}, varsMap: VariablesMap{}, start: map[string]*big.Int{}, rem: map[string]*big.Int{},
		granted: map[string]*big.Int{}, exempt: map[string]bool{}}
	e.pr = Parse(script)
	e.prog = e.pr.parseResult.Value
	spec := zzParseSpec(varspec)
	e.spec = spec
	for _, d := range e.prog.Vars {
		if d.Name == nil || d.Type == nil {
			continue
		}
		if d.Origin != nil {
			for _, a := range d.Origin.Args {
				e.collectExpr(a)
			}
			continue
		}
		name := d.Name.Name
		sp := spec[name]
		kv := strings.Split(sp, ":")
		kind := kv[0]
		arg := ""
		if len(kv) > 1 {
			arg = kv[1]
		}
		switch kind {
		case "acc":
			e.vars[name] = zzVal{kind: "account", s: arg}
			e.varsMap[name] = arg
			e.accounts = zzAddUnique(e.accounts, arg)
		case "asset":
			e.vars[name] = zzVal{kind: "asset", s: arg}
			e.varsMap[name] = arg
			e.assets = zzAddUnique(e.assets, arg)
		case "str":
			e.vars[name] = zzVal{kind: "string", s: arg}
			e.varsMap[name] = arg
		case "portion":
			nd := strings.Split(arg, "/")
			e.vars[name] = zzVal{kind: "portion", pn: zzAtoi(nd[0]), pd: zzAtoi(nd[1])}
			e.varsMap[name] = arg
		case "num":
			x := zzvrt.BigInt("var_" + name)
			e.vars[name] = zzVal{kind: "number", n: x}
			e.varsMap[name] = zzvrt.Dec(x)
		case "numk":
			x := big.NewInt(zzAtoi(arg))
			e.vars[name] = zzVal{kind: "number", n: x}
			e.varsMap[name] = arg
		case "mon":
			x := zzvrt.BigInt("var_" + name)
			e.vars[name] = zzVal{kind: "monetary", asset: arg, n: x}
			e.varsMap[name] = arg + " " + zzvrt.Dec(x)
			e.assets = zzAddUnique(e.assets, arg)
		case "monk":
			ak := strings.Split(arg, " ")
			x := big.NewInt(zzAtoi(ak[1]))
			e.vars[name] = zzVal{kind: "monetary", asset: ak[0], n: x}
			e.varsMap[name] = arg
			e.assets = zzAddUnique(e.assets, ak[0])
		}
	}
	for _, st := range e.prog.Statements {
		e.collectStatement(st)
	}
	zzSortStrings(e.accounts)
	zzSortStrings(e.assets)
	bal := Balances{}
	// "_omit=acc1,acc2": accounts the store knows nothing about (their balance is zero);
	// "_omitasset=acc/ASSET,...": single entries the store does not hold
	omit := map[string]bool{}
	for _, a := range strings.Split(spec["_omit"], ",") {
		if a != "" {
			omit[a] = true
		}
	}
	for _, a := range strings.Split(spec["_omitasset"], ",") {
		if a != "" {
			omit[a] = true
		}
	}
	for _, acc := range e.accounts {
		if acc == "world" || omit[acc] {
			continue
		}
		ab := AccountBalance{}
		for _, as := range e.assets {
			if omit[acc+"/"+as] {
				continue
			}
			x := zzvrt.BigInt("bal_" + acc + "_" + as)
			e.start[zzKey(acc, as)] = x
			e.rem[zzKey(acc, as)] = new(big.Int).Set(x)
			ab[as] = new(big.Int).Set(x)
		}
		bal[acc] = ab
	}
	// "_alias=b:a": account b starts with exactly the balances of a - and a store may hand out
	// one and the same number object for both (interned amounts)
	if al := spec["_alias"]; al != "" {
		ba := strings.Split(al, ":")
		for _, as := range e.assets {
			if x, ok := e.start[zzKey(ba[1], as)]; ok {
				e.start[zzKey(ba[0], as)] = x
				e.rem[zzKey(ba[0], as)] = new(big.Int).Set(x)
				if bal[ba[0]] == nil {
					bal[ba[0]] = AccountBalance{}
				}
				bal[ba[0]][as] = new(big.Int).Set(x)
			}
		}
	}
	e.store = StaticStore{Balances: bal, Meta: AccountsMetadata{}}
	return e
}

func (e *zzEnv) collectExpr(x parser.ValueExpr) {
	switch x := x.(type) {
	case *parser.AccountLiteral:
		e.accounts = zzAddUnique(e.accounts, x.Name)
	case *parser.AssetLiteral:
		e.assets = zzAddUnique(e.assets, x.Asset)
	case *parser.MonetaryLiteral:
		e.collectExpr(x.Asset)
		e.collectExpr(x.Amount)
	case *parser.BinaryInfix:
		e.collectExpr(x.Left)
		e.collectExpr(x.Right)
	}
}

func (e *zzEnv) collectSource(s parser.Source) {
	switch s := s.(type) {
	case *parser.SourceAccount:
		e.collectExpr(s.ValueExpr)
	case *parser.SourceOverdraft:
		e.collectExpr(s.Address)
		if s.Bounded != nil {
			e.collectExpr(*s.Bounded)
		}
	case *parser.SourceInorder:
		for _, x := range s.Sources {
			e.collectSource(x)
		}
	case *parser.SourceCapped:
		e.collectExpr(s.Cap)
		e.collectSource(s.From)
	case *parser.SourceAllotment:
		for _, it := range s.Items {
			e.collectSource(it.From)
		}
	}
}

func (e *zzEnv) collectKOD(k parser.KeptOrDestination) {
	if t, ok := k.(*parser.DestinationTo); ok {
		e.collectDest(t.Destination)
	}
}

func (e *zzEnv) collectDest(d parser.Destination) {
	switch d := d.(type) {
	case *parser.DestinationAccount:
		e.collectExpr(d.ValueExpr)
	case *parser.DestinationInorder:
		for _, c := range d.Clauses {
			e.collectExpr(c.Cap)
			e.collectKOD(c.To)
		}
		e.collectKOD(d.Remaining)
	case *parser.DestinationAllotment:
		for _, it := range d.Items {
			e.collectKOD(it.To)
		}
	}
}

func (e *zzEnv) collectStatement(st parser.Statement) {
	switch st := st.(type) {
	case *parser.SendStatement:
		switch sv := st.SentValue.(type) {
		case *parser.SentValueLiteral:
			e.collectExpr(sv.Monetary)
		case *parser.SentValueAll:
			e.collectExpr(sv.Asset)
		}
		e.collectSource(st.Source)
		e.collectDest(st.Destination)
	case *parser.SaveStatement:
		switch sv := st.SentValue.(type) {
		case *parser.SentValueLiteral:
			e.collectExpr(sv.Monetary)
		case *parser.SentValueAll:
			e.collectExpr(sv.Asset)
		}
		e.collectExpr(st.Amount)
	case *parser.FnCall:
		for _, a := range st.Args {
			e.collectExpr(a)
		}
	}
}

// eval evaluates a value expression in the oracle.
func (e *zzEnv) eval(x parser.ValueExpr) zzVal {
	switch x := x.(type) {
	case *parser.AccountLiteral:
		return zzVal{kind: "account", s: x.Name}
	case *parser.AssetLiteral:
		return zzVal{kind: "asset", s: x.Asset}
	case *parser.StringLiteral:
		return zzVal{kind: "string", s: x.String}
	case *parser.NumberLiteral:
		return zzVal{kind: "number", n: big.NewInt(int64(x.Number))}
	case *parser.RatioLiteral:
		return zzVal{kind: "portion", pn: x.Numerator.Int64(), pd: x.Denominator.Int64()}
	case *parser.MonetaryLiteral:
		a := e.eval(x.Asset)
		n := e.eval(x.Amount)
		if a.kind != "asset" || n.kind != "number" {
			return zzVal{kind: "bad"}
		}
		return zzVal{kind: "monetary", asset: a.s, n: n.n}
	case *parser.Variable:
		v, ok := e.vars[x.Name]
		if !ok {
			return zzVal{kind: "bad"}
		}
		return v
	case *parser.BinaryInfix:
		l := e.eval(x.Left)
		r := e.eval(x.Right)
		if l.kind != r.kind || (l.kind != "number" && l.kind != "monetary") {
			return zzVal{kind: "bad"}
		}
		if l.kind == "monetary" && l.asset != r.asset {
			return zzVal{kind: "bad"}
		}
		var n *big.Int
		if x.Operator == parser.InfixOperatorPlus {
			n = new(big.Int).Add(l.n, r.n)
		} else {
			n = new(big.Int).Sub(l.n, r.n)
		}
		return zzVal{kind: l.kind, asset: l.asset, n: n}
	}
	return zzVal{kind: "bad"}
}

func (e *zzEnv) balance(acc, asset string) *big.Int {
	k := zzKey(acc, asset)
	b, ok := e.rem[k]
	if !ok {
		b = big.NewInt(0)
		e.rem[k] = b
	}
	return b
}

// amountOf evaluates a monetary expression of the statement's asset.
func (e *zzEnv) amountOf(x parser.ValueExpr, asset string) *big.Int {
	v := e.eval(x)
	if v.kind != "monetary" || v.asset != asset {
		e.unsupported = "cap/limit of another type or asset"
		return big.NewInt(0)
	}
	return v.n
}

func (e *zzEnv) accountOf(x parser.ValueExpr) string {
	v := e.eval(x)
	if v.kind != "account" {
		e.unsupported = "non-account where an account is required"
		return "?"
	}
	return v.s
}

// portions resolves an allotment's item list into concrete rationals;
// ok=false when the sum is not one (without remaining).
func (e *zzEnv) portions(items []parser.AllotmentValue) (pn, pd []int64, sumOK bool) {
	pn = make([]int64, len(items))
	pd = make([]int64, len(items))
	var sn, sd int64 = 0, 1
	rem := -1
	nRem := 0
	for i, it := range items {
		switch a := it.(type) {
		case *parser.RemainingAllotment:
			rem = i
			nRem++
			pn[i], pd[i] = 0, 1
		case *parser.RatioLiteral:
			if !a.Numerator.IsInt64() || !a.Denominator.IsInt64() || a.Denominator.Int64() > 1000000 || a.Numerator.Int64() > 1000000 {
				// the reference computes with machine integers: larger portions are outside ITS reach
				e.unsupported = "portion beyond the reference's 64-bit arithmetic (covered by the portion-literal cases)"
				return pn, pd, true
			}
			pn[i], pd[i] = a.Numerator.Int64(), a.Denominator.Int64()
		case *parser.Variable:
			v := e.eval(a)
			if v.kind != "portion" {
				e.unsupported = "non-portion variable in allotment"
				return pn, pd, true
			}
			pn[i], pd[i] = v.pn, v.pd
		}
		if pd[i] == 0 {
			e.unsupported = "zero denominator"
			return pn, pd, true
		}
		if sd > 1000000000000 {
			e.unsupported = "portion sum beyond the reference's 64-bit arithmetic"
			return pn, pd, true
		}
		sn, sd = sn*pd[i]+pn[i]*sd, sd*pd[i]
		g := zzGcd(sn, sd)
		sn, sd = sn/g, sd/g
	}
	if nRem > 1 {
		e.unsupported = "two remaining clauses (undefined by the property texts)"
		return pn, pd, true
	}
	if rem >= 0 {
		if sn > sd {
			e.unsupported = "remaining with other portions above one (undefined by the property texts)"
			return pn, pd, true
		}
		pn[rem], pd[rem] = sd-sn, sd
		return pn, pd, true
	}
	return pn, pd, sn == sd
}

// allot: floor shares, leftover units to the earliest entries.
func zzAllot(total *big.Int, pn, pd []int64) []*big.Int {
	parts := make([]*big.Int, len(pn))
	sum := big.NewInt(0)
	for i := range pn {
		parts[i] = zzvrt.FloorDiv(zzvrt.MulK(total, pn[i]), pd[i])
		sum = new(big.Int).Add(sum, parts[i])
	}
	left := new(big.Int).Sub(total, sum)
	for i := range parts {
		bonus := zzvrt.Ite(zzvrt.Lt(big.NewInt(int64(i)), left), big.NewInt(1), big.NewInt(0))
		parts[i] = new(big.Int).Add(parts[i], bonus)
	}
	return parts
}

// draw: left-to-right greedy draw of up to `need`; returns what was supplied.
// ok is false (symbolically) when an allotment item cannot deliver its share.
func (e *zzEnv) draw(src parser.Source, need *big.Int, asset string, out *[]zzDraw) (*big.Int, bool) {
	switch s := src.(type) {
	case *parser.SourceAccount:
		acc := e.accountOf(s.ValueExpr)
		return e.drawAccount(acc, need, asset, big.NewInt(0), false, out), true
	case *parser.SourceOverdraft:
		acc := e.accountOf(s.Address)
		if s.Bounded == nil {
			e.exempt[acc] = true
			return e.drawAccount(acc, need, asset, nil, true, out), true
		}
		lim := e.amountOf(*s.Bounded, asset)
		e.grant(acc, asset, lim)
		return e.drawAccount(acc, need, asset, lim, false, out), true
	case *parser.SourceInorder:
		left := need
		ok := true
		for _, sub := range s.Sources {
			got, subOK := e.draw(sub, left, asset, out)
			ok = zzvrt.And(ok, subOK)
			left = new(big.Int).Sub(left, got)
		}
		return new(big.Int).Sub(need, left), ok
	case *parser.SourceCapped:
		c := zzvrt.Clamp0(e.amountOf(s.Cap, asset))
		return e.draw(s.From, zzvrt.Min(need, c), asset, out)
	case *parser.SourceAllotment:
		var items []parser.AllotmentValue
		for _, it := range s.Items {
			items = append(items, it.Allotment)
		}
		pn, pd, sumOK := e.portions(items)
		if e.unsupported != "" {
			return need, true
		}
		if !sumOK {
			e.badAllot = true
			return need, true
		}
		shares := zzAllot(need, pn, pd)
		ok := true
		for i, it := range s.Items {
			got, subOK := e.draw(it.From, shares[i], asset, out)
			ok = zzvrt.And(ok, zzvrt.And(subOK, zzvrt.Eq(got, shares[i])))
		}
		return need, ok
	}
	e.unsupported = "unknown source node"
	return big.NewInt(0), true
}

func (e *zzEnv) grant(acc, asset string, lim *big.Int) {
	k := zzKey(acc, asset)
	if old, ok := e.granted[k]; ok {
		e.granted[k] = zzvrt.Max(old, lim)
	} else {
		e.granted[k] = lim
	}
}

func (e *zzEnv) drawAccount(acc string, need *big.Int, asset string, overdraft *big.Int, unbounded bool, out *[]zzDraw) *big.Int {
	if acc == "world" || unbounded {
		e.exempt[acc] = true
		*out = append(*out, zzDraw{acc, need})
		if acc != "world" {
			e.rem[zzKey(acc, asset)] = new(big.Int).Sub(e.balance(acc, asset), need)
		}
		return need
	}
	bal := e.balance(acc, asset)
	avail := zzvrt.Clamp0(new(big.Int).Add(bal, overdraft))
	give := zzvrt.Min(need, avail)
	// what this statement already drew from the account is no longer there
	e.rem[zzKey(acc, asset)] = new(big.Int).Sub(bal, give)
	*out = append(*out, zzDraw{acc, give})
	return give
}

// drawAll: send-all mode. Returns the total; records structural rejections.
func (e *zzEnv) drawAll(src parser.Source, asset string, out *[]zzDraw) *big.Int {
	switch s := src.(type) {
	case *parser.SourceAccount:
		acc := e.accountOf(s.ValueExpr)
		if acc == "world" {
			e.reject("unbounded")
			return big.NewInt(0)
		}
		return e.drawAllAccount(acc, asset, big.NewInt(0), out)
	case *parser.SourceOverdraft:
		acc := e.accountOf(s.Address)
		if s.Bounded == nil || acc == "world" {
			e.reject("unbounded")
			return big.NewInt(0)
		}
		lim := e.amountOf(*s.Bounded, asset)
		e.grant(acc, asset, lim)
		return e.drawAllAccount(acc, asset, lim, out)
	case *parser.SourceInorder:
		total := big.NewInt(0)
		for _, sub := range s.Sources {
			total = new(big.Int).Add(total, e.drawAll(sub, asset, out))
		}
		return total
	case *parser.SourceCapped:
		c := zzvrt.Clamp0(e.amountOf(s.Cap, asset))
		got, ok := e.draw(s.From, c, asset, out)
		// an allotment under a cap that cannot deliver its shares fails the statement
		e.missing = zzvrt.Or(e.missing, zzvrt.Not(ok))
		return got
	case *parser.SourceAllotment:
		e.reject("allotment")
		return big.NewInt(0)
	}
	e.unsupported = "unknown source node"
	return big.NewInt(0)
}

func (e *zzEnv) reject(kind string) {
	if e.unbounded == "" {
		e.unbounded = kind
	}
}

func (e *zzEnv) drawAllAccount(acc, asset string, overdraft *big.Int, out *[]zzDraw) *big.Int {
	bal := e.balance(acc, asset)
	give := zzvrt.Clamp0(new(big.Int).Add(bal, overdraft))
	e.rem[zzKey(acc, asset)] = new(big.Int).Sub(bal, give)
	*out = append(*out, zzDraw{acc, give})
	return give
}

func (e *zzEnv) distributeKOD(k parser.KeptOrDestination, amt *big.Int, asset string, out *[]zzCredit) {
	switch t := k.(type) {
	case *parser.DestinationKept:
		*out = append(*out, zzCredit{acc: "<kept>", kept: true, amt: amt})
	case *parser.DestinationTo:
		e.distribute(t.Destination, amt, asset, out)
	default:
		e.unsupported = "missing destination target"
	}
}

func (e *zzEnv) distribute(dst parser.Destination, amt *big.Int, asset string, out *[]zzCredit) {
	switch d := dst.(type) {
	case *parser.DestinationAccount:
		*out = append(*out, zzCredit{acc: e.accountOf(d.ValueExpr), amt: amt})
	case *parser.DestinationInorder:
		left := amt
		for _, c := range d.Clauses {
			cp := zzvrt.Clamp0(e.amountOf(c.Cap, asset))
			take := zzvrt.Min(cp, left)
			e.distributeKOD(c.To, take, asset, out)
			left = new(big.Int).Sub(left, take)
		}
		e.distributeKOD(d.Remaining, left, asset, out)
	case *parser.DestinationAllotment:
		var items []parser.AllotmentValue
		for _, it := range d.Items {
			items = append(items, it.Allotment)
		}
		pn, pd, sumOK := e.portions(items)
		if e.unsupported != "" {
			return
		}
		if !sumOK {
			e.badAllot = true
			return
		}
		shares := zzAllot(amt, pn, pd)
		for i, it := range d.Items {
			e.distributeKOD(it.To, shares[i], asset, out)
		}
	default:
		e.unsupported = "unknown destination node"
	}
}

// pair: first-come-first-served matching of draws with credits.
func zzPair(draws []zzDraw, credits []zzCredit) map[string]*big.Int {
	flows := map[string]*big.Int{}
	S := make([]*big.Int, len(draws)+1)
	R := make([]*big.Int, len(credits)+1)
	S[0], R[0] = big.NewInt(0), big.NewInt(0)
	for i, d := range draws {
		S[i+1] = new(big.Int).Add(S[i], d.amt)
	}
	for j, c := range credits {
		R[j+1] = new(big.Int).Add(R[j], c.amt)
	}
	for i, d := range draws {
		for j, c := range credits {
			if c.kept {
				continue
			}
			lo := zzvrt.Max(S[i], R[j])
			hi := zzvrt.Min(S[i+1], R[j+1])
			f := zzvrt.Clamp0(new(big.Int).Sub(hi, lo))
			k := d.acc + "|" + c.acc
			if old, ok := flows[k]; ok {
				flows[k] = new(big.Int).Add(old, f)
			} else {
				flows[k] = f
			}
		}
	}
	return flows
}

// reference runs the oracle over the whole script.
func (e *zzEnv) reference() {
	for _, st := range e.prog.Statements {
		switch st := st.(type) {
		case *parser.SendStatement:
			e.refSend(st)
		case *parser.SaveStatement:
			e.refSave(st)
		case *parser.FnCall:
			e.flows = append(e.flows, nil)
			e.stmtAsset = append(e.stmtAsset, "")
			e.draws = append(e.draws, nil)
			e.credits = append(e.credits, nil)
			e.sent = append(e.sent, nil)
		}
	}
}

func (e *zzEnv) refSend(st *parser.SendStatement) {
	var draws []zzDraw
	var credits []zzCredit
	var asset string
	var amount *big.Int
	// balances as seen at the start of the statement (draws lower e.rem on the fly)
	before := map[string]*big.Int{}
	for k, v := range e.rem {
		before[k] = v
	}
	switch sv := st.SentValue.(type) {
	case *parser.SentValueLiteral:
		m := e.eval(sv.Monetary)
		if m.kind != "monetary" {
			e.unsupported = "sent value is not a monetary"
			return
		}
		asset = m.asset
		e.negative = zzvrt.Or(e.negative, zzvrt.Lt(m.n, big.NewInt(0)))
		amount = m.n
		got, ok := e.draw(st.Source, amount, asset, &draws)
		e.missing = zzvrt.Or(e.missing, zzvrt.Or(zzvrt.Not(ok), zzvrt.Lt(got, amount)))
	case *parser.SentValueAll:
		a := e.eval(sv.Asset)
		if a.kind != "asset" {
			e.unsupported = "send-all asset is not an asset"
			return
		}
		asset = a.s
		amount = e.drawAll(st.Source, asset, &draws)
	default:
		e.unsupported = "missing sent value"
		return
	}
	e.distribute(st.Destination, amount, asset, &credits)
	flows := zzPair(draws, credits)
	// the statement's effect on balances = its postings (kept units are not debited)
	e.rem = before
	for k, f := range flows {
		sd := strings.Split(k, "|")
		if sd[0] != "world" {
			e.rem[zzKey(sd[0], asset)] = new(big.Int).Sub(e.balance(sd[0], asset), f)
		}
		if sd[1] != "world" {
			e.rem[zzKey(sd[1], asset)] = new(big.Int).Add(e.balance(sd[1], asset), f)
		}
	}
	e.flows = append(e.flows, flows)
	e.stmtAsset = append(e.stmtAsset, asset)
	e.draws = append(e.draws, draws)
	e.credits = append(e.credits, credits)
	e.sent = append(e.sent, amount)
}

func (e *zzEnv) refSave(st *parser.SaveStatement) {
	acc := e.accountOf(st.Amount)
	switch sv := st.SentValue.(type) {
	case *parser.SentValueLiteral:
		m := e.eval(sv.Monetary)
		if m.kind != "monetary" {
			e.unsupported = "saved value is not a monetary"
			return
		}
		e.negative = zzvrt.Or(e.negative, zzvrt.Lt(m.n, big.NewInt(0)))
		bal := e.balance(acc, m.asset)
		lowered := zzvrt.Clamp0(new(big.Int).Sub(bal, m.n))
		e.rem[zzKey(acc, m.asset)] = zzvrt.Ite(zzvrt.Le(bal, big.NewInt(0)), bal, lowered)
	case *parser.SentValueAll:
		a := e.eval(sv.Asset)
		if a.kind != "asset" {
			e.unsupported = "save-all asset is not an asset"
			return
		}
		bal := e.balance(acc, a.s)
		e.rem[zzKey(acc, a.s)] = zzvrt.Min(bal, big.NewInt(0))
	}
	e.flows = append(e.flows, nil)
	e.stmtAsset = append(e.stmtAsset, "")
	e.draws = append(e.draws, nil)
	e.credits = append(e.credits, nil)
	e.sent = append(e.sent, nil)
}

// totalFlows sums the expected flows of all statements per asset.
func (e *zzEnv) totalFlows() map[string]*big.Int {
	out := map[string]*big.Int{}
	for i, fl := range e.flows {
		for k, f := range fl {
			kk := e.stmtAsset[i] + "|" + k
			if old, ok := out[kk]; ok {
				out[kk] = new(big.Int).Add(old, f)
			} else {
				out[kk] = f
			}
		}
	}
	return out
}

// postedFlows sums the actual postings per asset|src|dst.
func zzPostedFlows(ps []Posting) map[string]*big.Int {
	out := map[string]*big.Int{}
	for _, p := range ps {
		k := p.Asset + "|" + p.Source + "|" + p.Destination
		if old, ok := out[k]; ok {
			out[k] = new(big.Int).Add(old, p.Amount)
		} else {
			out[k] = new(big.Int).Set(p.Amount)
		}
	}
	return out
}

func zzNotePostings(ps []Posting) {
	for i, p := range ps {
		zzvrt.NoteBig("posting"+zzItoa(i)+" "+p.Source+"->"+p.Destination+" "+p.Asset, p.Amount)
	}
}

func zzErrClass(err InterpreterError) string {
	if err == nil {
		return ""
	}
	return zzErrName(err)
}

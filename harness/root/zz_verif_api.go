package numscript

import (
	"context"
	"math/big"
	"strings"

	"github.com/formancehq/numscript/internal/interpreter"
	"github.com/formancehq/numscript/internal/zzvrt"
)

func zzErrName(err InterpreterError) string {
	switch err.(type) {
	case interpreter.MissingFundsErr:
		return "MissingFundsErr"
	case interpreter.InvalidMonetaryLiteral:
		return "InvalidMonetaryLiteral"
	case interpreter.InvalidNumberLiteral:
		return "InvalidNumberLiteral"
	case interpreter.MetadataNotFound:
		return "MetadataNotFound"
	case interpreter.TypeError:
		return "TypeError"
	case interpreter.UnboundVariableErr:
		return "UnboundVariableErr"
	case interpreter.BadPortionParsingErr:
		return "BadPortionParsingErr"
	case interpreter.MissingVariableErr:
		return "MissingVariableErr"
	case interpreter.InvalidAccountName:
		return "InvalidAccountName"
	case interpreter.UnboundFunctionErr:
		return "UnboundFunctionErr"
	case interpreter.BadArityErr:
		return "BadArityErr"
	case interpreter.InvalidTypeErr:
		return "InvalidTypeErr"
	case interpreter.NegativeBalanceError:
		return "NegativeBalanceError"
	case interpreter.NegativeAmountErr:
		return "NegativeAmountErr"
	case interpreter.InvalidAllotmentInSendAll:
		return "InvalidAllotmentInSendAll"
	case interpreter.InvalidUnboundedInSendAll:
		return "InvalidUnboundedInSendAll"
	case interpreter.MismatchedCurrencyError:
		return "MismatchedCurrencyError"
	case interpreter.InvalidAllotmentSum:
		return "InvalidAllotmentSum"
	case interpreter.QueryBalanceError:
		return "QueryBalanceError"
	case interpreter.QueryMetadataError:
		return "QueryMetadataError"
	case interpreter.ExperimentalFeature:
		return "ExperimentalFeature"
	}
	return "other"
}

func zzWant(props, p string) bool {
	for _, x := range strings.Split(props, ",") {
		if x == p {
			return true
		}
	}
	return false
}

func zzZeroResult(res ExecutionResult) bool {
	return len(res.Postings) == 0 && res.Postings == nil && res.Metadata == nil && res.AccountsMetadata == nil
}

// ZZAPI runs `script` through the public API on symbolic balances and
// variables and asserts the clauses of the requested properties against the
// reference semantics. props: comma-separated property ids.
func ZZAPI(props, script, varspec string) {
	e := zzPrepare(script, varspec)
	if len(e.pr.GetParsingErrors()) != 0 {
		zzvrt.Note("template does not parse")
		zzvrt.Reach("skipped-parse-error")
		return
	}
	e.reference()
	if e.unsupported != "" {
		zzvrt.Note("oracle undefined: " + e.unsupported)
		if zzWant(props, "C02") {
			// what the script should do is not fixed by the texts, but whatever it does,
			// every posting of a successful run is a real transfer
			res, err := e.pr.Run(context.Background(), e.varsMap, e.store)
			zzvrt.Note("result=" + zzErrClass(err))
			if err == nil {
				zzNotePostings(res.Postings)
				for _, p := range res.Postings {
					zzvrt.Assert(zzvrt.Lt(big.NewInt(0), p.Amount), "C02:posting-positive")
					zzvrt.Assert(p.Source != "" && p.Destination != "" && p.Source != "<kept>" && p.Destination != "<kept>", "C02:real-accounts")
				}
			}
			zzvrt.Reach("undefined-by-text-postings-checked")
			return
		}
		zzvrt.Reach("skipped-undefined-by-text")
		return
	}
	// stated bound for C01 only (its floor is "minus the largest grant"): overdraft limits are
	// non-negative; the other properties take limits of any sign (a negative limit lowers what
	// the account can give, as balance + limit)
	zero := big.NewInt(0)
	if zzWant(props, "C01") {
		for _, lim := range e.granted {
			zzvrt.Assume(zzvrt.Le(zero, lim))
		}
	}

	// "_store=<kind>": the same truth table served by a store that answers in another
	// legitimate way (exactly what is asked, only non-zero entries, shared number objects ...)
	var st Store = e.store
	if kind := e.spec["_store"]; kind != "" {
		st = zzNewStore(kind, e, AccountsMetadata{})
	}
	res, err := e.pr.Run(context.Background(), e.varsMap, st)
	cls := zzErrClass(err)
	zzvrt.Note("result=" + cls)
	if err == nil {
		zzNotePostings(res.Postings)
	}

	structural := e.badAllot || e.unbounded != ""

	// ---------------- outcome: success / failure for the right reason
	if zzWant(props, "C03") || zzWant(props, "C04") || zzWant(props, "C12") || zzWant(props, "C08") || zzWant(props, "C06") {
		pfx := "C03:"
		for _, p := range []string{"C12", "C08", "C06", "C04", "C03"} {
			if zzWant(props, p) {
				pfx = p + ":"
			}
		}
		if err == nil {
			if !structural {
				zzvrt.Assert(zzvrt.Not(e.missing), pfx+"success-only-when-funded")
				zzvrt.Assert(zzvrt.Not(e.negative), pfx+"negative-amount-rejected")
			} else {
				zzvrt.Assert(false, pfx+"structural-error-expected")
			}
		} else {
			zzvrt.Assert(zzZeroResult(res), pfx+"atomic-failure")
			switch cls {
			case "MissingFundsErr":
				zzvrt.Assert(e.missing, pfx+"no-spurious-missing-funds")
			case "NegativeAmountErr":
				zzvrt.Assert(e.negative, pfx+"no-spurious-negative-amount")
			case "InvalidAllotmentSum":
				zzvrt.Assert(e.badAllot, pfx+"no-spurious-allotment-sum")
			case "InvalidUnboundedInSendAll", "InvalidAllotmentInSendAll":
				zzvrt.Assert(e.unbounded != "", pfx+"no-spurious-sendall-rejection")
			default:
				zzvrt.Assert(false, pfx+"unexpected-error-class")
			}
		}
	}
	if err != nil {
		zzvrt.Reach("api-end-error")
		return
	}
	if structural {
		// the statement should have been rejected; reported above for C03/C04/C12
		if zzWant(props, "C06") {
			zzvrt.Assert(!e.badAllot, "C06:bad-allotment-sum-rejected")
		}
		zzvrt.Reach("api-end-structural")
		return
	}
	// Flow comparisons presuppose that the oracle agrees the run succeeds.
	agree := zzvrt.Not(zzvrt.Or(e.missing, e.negative))

	posted := zzPostedFlows(res.Postings)
	expected := e.totalFlows()
	keys := []string{}
	for k := range posted {
		keys = zzAddUnique(keys, k)
	}
	for k := range expected {
		keys = zzAddUnique(keys, k)
	}
	zzSortStrings(keys)
	get := func(m map[string]*big.Int, k string) *big.Int {
		if v, ok := m[k]; ok {
			return v
		}
		return zero
	}

	// ---------------- C02: every posting is a real transfer
	if zzWant(props, "C02") {
		for _, p := range res.Postings {
			zzvrt.Assert(zzvrt.Lt(zero, p.Amount), "C02:posting-positive")
			zzvrt.Assert(p.Source != "" && p.Destination != "" && p.Source != "<kept>" && p.Destination != "<kept>", "C02:real-accounts")
			okAsset := false
			for _, a := range e.stmtAsset {
				if a != "" && a == p.Asset {
					okAsset = true
				}
			}
			zzvrt.Assert(okAsset, "C02:asset-of-a-send")
		}
		// and per asset the posted total is what the sends of that asset move
		for _, as := range e.assets {
			pt, et := big.NewInt(0), big.NewInt(0)
			for _, k := range keys {
				if strings.HasPrefix(k, as+"|") {
					pt = new(big.Int).Add(pt, get(posted, k))
					et = new(big.Int).Add(et, get(expected, k))
				}
			}
			zzvrt.Assert(zzvrt.Implies(agree, zzvrt.Eq(pt, et)), "C02:asset-total")
		}
	}

	// ---------------- C03: exactly n minus kept
	if zzWant(props, "C03") {
		for i, amt := range e.sent {
			if amt == nil {
				continue
			}
			_ = i
		}
		// total posted over the script = sum over sends of (sent - kept)
		want := big.NewInt(0)
		for i, amt := range e.sent {
			if amt == nil {
				continue
			}
			kept := big.NewInt(0)
			for _, c := range e.credits[i] {
				if c.kept {
					kept = new(big.Int).Add(kept, c.amt)
				}
			}
			want = new(big.Int).Add(want, new(big.Int).Sub(amt, kept))
		}
		got := big.NewInt(0)
		for _, p := range res.Postings {
			got = new(big.Int).Add(got, p.Amount)
		}
		zzvrt.Assert(zzvrt.Implies(agree, zzvrt.Eq(got, want)), "C03:moves-exactly-n-minus-kept")
	}

	// ---------------- C04: per-account debits equal the greedy draw
	if zzWant(props, "C04") {
		for _, acc := range e.accounts {
			for _, as := range e.assets {
				pd, ed := big.NewInt(0), big.NewInt(0)
				for _, k := range keys {
					if strings.HasPrefix(k, as+"|"+acc+"|") {
						pd = new(big.Int).Add(pd, get(posted, k))
						ed = new(big.Int).Add(ed, get(expected, k))
					}
				}
				zzvrt.Assert(zzvrt.Implies(agree, zzvrt.Eq(pd, ed)), "C04:debit-equals-greedy-draw")
			}
		}
	}

	// ---------------- C05: per-account credits equal the declared distribution
	if zzWant(props, "C05") {
		for _, acc := range e.accounts {
			for _, as := range e.assets {
				pc, ec := big.NewInt(0), big.NewInt(0)
				for _, k := range keys {
					if strings.HasPrefix(k, as+"|") && strings.HasSuffix(k, "|"+acc) {
						pc = new(big.Int).Add(pc, get(posted, k))
						ec = new(big.Int).Add(ec, get(expected, k))
					}
				}
				zzvrt.Assert(zzvrt.Implies(agree, zzvrt.Eq(pc, ec)), "C05:credit-equals-distribution")
			}
		}
		// credited + kept = sent, per send
		for i, amt := range e.sent {
			if amt == nil {
				continue
			}
			sum := big.NewInt(0)
			for _, c := range e.credits[i] {
				sum = new(big.Int).Add(sum, c.amt)
			}
			zzvrt.Assert(zzvrt.Implies(agree, zzvrt.Eq(sum, amt)), "C05:oracle-credited-plus-kept-equals-sent")
		}
	}

	// ---------------- C06 / C07 / C08: net flow per (source, destination)
	for _, pid := range []string{"C06", "C07", "C08"} {
		if zzWant(props, pid) {
			for _, k := range keys {
				zzvrt.Assert(zzvrt.Implies(agree, zzvrt.Eq(get(posted, k), get(expected, k))), pid+":flow-equals-reference")
			}
		}
	}

	// ---------------- C01: replay postings on the starting balances
	if zzWant(props, "C01") {
		cur := map[string]*big.Int{}
		for k, v := range e.start {
			cur[k] = v
		}
		bal := func(acc, as string) *big.Int {
			if v, ok := cur[zzKey(acc, as)]; ok {
				return v
			}
			return zero
		}
		for _, p := range res.Postings {
			cur[zzKey(p.Source, p.Asset)] = new(big.Int).Sub(bal(p.Source, p.Asset), p.Amount)
			cur[zzKey(p.Destination, p.Asset)] = new(big.Int).Add(bal(p.Destination, p.Asset), p.Amount)
			if p.Source == "world" || e.exempt[p.Source] {
				continue
			}
			st, ok := e.start[zzKey(p.Source, p.Asset)]
			if !ok {
				st = zero
			}
			floor := zzvrt.Min(st, zero)
			if g, ok := e.granted[zzKey(p.Source, p.Asset)]; ok {
				floor = zzvrt.Min(st, new(big.Int).Neg(g))
			}
			zzvrt.Assert(zzvrt.Le(floor, bal(p.Source, p.Asset)), "C01:no-unauthorised-overdraft")
		}
	}
	zzvrt.Reach("api-end-success")
}

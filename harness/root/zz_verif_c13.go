package numscript

import (
	"context"
	"encoding/json"
	"math/big"
	"strings"

	"github.com/formancehq/numscript/internal/interpreter"
	"github.com/formancehq/numscript/internal/parser"
	"github.com/formancehq/numscript/internal/zzvrt"
)

// ZZC13RoundTrip: a value of type typ is written to account and transaction
// metadata by one script and read back by a second script through a
// metadata-backed variable of the same type.
//
// kind: num (any integer), mon:<ASSET> (any integer amount), asset:<n> (n symbolic bytes of [A-Z0-9/]... first is a letter),
// str:<n> (n arbitrary bytes), acc:<name>, portion:<n>/<d>
func ZZC13RoundTrip(typ, kind string) {
	kv := strings.Split(kind, ":")
	var text string
	switch kv[0] {
	case "num":
		text = zzvrt.Dec(zzvrt.BigInt("v"))
	case "mon":
		text = kv[1] + " " + zzvrt.Dec(zzvrt.BigInt("v"))
	case "asset":
		n := int(zzAtoi(kv[1]))
		bs := make([]byte, n)
		for i := range bs {
			b := zzvrt.Byte("ch" + zzItoa(i))
			upper := zzvrt.And(b >= 'A', b <= 'Z')
			digit := zzvrt.And(b >= '0', b <= '9')
			if i == 0 {
				zzvrt.Assume(upper)
			} else {
				zzvrt.Assume(zzvrt.Or(upper, zzvrt.Or(digit, b == '/')))
			}
			bs[i] = b
		}
		text = string(bs)
	case "str":
		n := int(zzAtoi(kv[1]))
		bs := make([]byte, n)
		for i := range bs {
			bs[i] = zzvrt.Byte("ch" + zzItoa(i))
		}
		text = string(bs)
	case "acc":
		text = kv[1]
	case "portion":
		text = kv[1]
	}

	w := Parse("vars {\n  " + typ + " $v\n}\nset_account_meta(@x, \"k\", $v)\nset_tx_meta(\"k\", $v)")
	if len(w.GetParsingErrors()) != 0 {
		zzvrt.Reach("skipped-parse-error")
		return
	}
	res1, err1 := w.Run(context.Background(), VariablesMap{"v": text}, StaticStore{})
	if err1 != nil {
		// only possible for texts that are not values of the type (e.g. a portion outside [0,1])
		zzvrt.Note("write failed: " + zzErrClass(err1))
		zzvrt.Assert(kv[0] == "portion", "C13:value-of-the-type-accepted")
		zzvrt.Reach("c13-roundtrip-rejected")
		return
	}
	stored := res1.AccountsMetadata["x"]["k"]
	v1 := res1.Metadata["k"]
	zzvrt.Assert(v1 != nil, "C13:tx-meta-written")
	if v1 == nil {
		return
	}
	// transaction metadata renders to the same text as account metadata
	zzvrt.Assert(zzvrt.StrEq(v1.String(), stored), "C13:tx-meta-text-equals-account-meta-text")
	switch m := v1.(type) {
	case interpreter.MonetaryInt:
		b, _ := m.MarshalJSON()
		zzJSONIsText(b, stored)
	case interpreter.Monetary:
		b, _ := m.MarshalJSON()
		zzJSONIsText(b, stored)
	case interpreter.Portion:
		b, _ := m.MarshalJSON()
		zzJSONIsText(b, stored)
	}

	// second script: read the stored text back through a metadata-backed variable
	// ... and write it again over another value under the key it came from: the last
	// write is the one a later script must find
	r := Parse("vars {\n  " + typ + " $v = meta(@x, \"k\")\n}\nset_tx_meta(\"k\", $v)\nset_account_meta(@y, \"k\", $v)\nset_account_meta(@x, \"k\", \"something else\")\nset_account_meta(@x, \"k\", $v)")
	res2, err2 := r.Run(context.Background(), VariablesMap{}, StaticStore{Meta: AccountsMetadata{"x": AccountMetadata{"k": stored}}})
	zzvrt.Assert(err2 == nil, "C13:stored-text-reads-back")
	if err2 != nil {
		zzvrt.Note("read back failed: " + zzErrClass(err2))
		return
	}
	v2 := res2.Metadata["k"]
	zzvrt.Assert(v2 != nil, "C13:stored-text-reads-back")
	if v2 == nil {
		return
	}
	zzvrt.Assert(zzvrt.StrEq(v2.String(), v1.String()), "C13:read-back-value-identical")
	zzvrt.Assert(zzvrt.StrEq(res2.AccountsMetadata["y"]["k"], stored), "C13:read-back-value-identical")
	zzvrt.Assert(zzvrt.StrEq(res2.AccountsMetadata["x"]["k"], stored), "C13:value-written-back-over-another-one-is-what-remains")
	// and as a plain variable of the same type
	p := Parse("vars {\n  " + typ + " $v\n}\nset_tx_meta(\"k\", $v)")
	res3, err3 := p.Run(context.Background(), VariablesMap{"v": stored}, StaticStore{})
	zzvrt.Assert(err3 == nil, "C13:stored-text-is-a-valid-variable")
	if err3 == nil {
		zzvrt.Assert(zzvrt.StrEq(res3.Metadata["k"].String(), v1.String()), "C13:plain-variable-value-identical")
	}
	// same dynamic type
	same := false
	switch v1.(type) {
	case interpreter.MonetaryInt:
		_, same = v2.(interpreter.MonetaryInt)
	case interpreter.Monetary:
		_, same = v2.(interpreter.Monetary)
	case interpreter.Portion:
		_, same = v2.(interpreter.Portion)
	case interpreter.Asset:
		_, same = v2.(interpreter.Asset)
	case interpreter.AccountAddress:
		_, same = v2.(interpreter.AccountAddress)
	case interpreter.String:
		_, same = v2.(interpreter.String)
	}
	zzvrt.Assert(same, "C13:read-back-type-identical")
	zzvrt.Reach("c13-roundtrip-end")
}

// ZZC06Literal: the portions written in a destination allotment denote exactly
// the expected rationals ("n/d,n/d,..." computed by the case generator from the
// text, in base ten) and the send splits accordingly for every amount.
func ZZC06Literal(script, expected string) {
	e := zzPrepare(script, "n=mon:USD")
	if len(e.pr.GetParsingErrors()) != 0 {
		zzvrt.Reach("skipped-parse-error")
		return
	}
	w := strings.Split(expected, ",")
	var got []string
	for _, st := range e.prog.Statements {
		if s, ok := st.(*parser.SendStatement); ok {
			if d, ok := s.Destination.(*parser.DestinationAllotment); ok {
				for _, it := range d.Items {
					if r, ok := it.Allotment.(*parser.RatioLiteral); ok {
						got = append(got, zzvrt.Dec(r.Numerator)+"/"+zzvrt.Dec(r.Denominator))
					}
				}
			}
		}
	}
	zzvrt.Assert(len(got) == len(w), "C06:portion-literal-count")
	if len(got) != len(w) {
		return
	}
	for i := range w {
		gn, gd := zzSplitRat(got[i])
		wn, wd := zzSplitRat(w[i])
		// gn/gd == wn/wd
		zzvrt.Assert(new(big.Int).Mul(gn, wd).Cmp(new(big.Int).Mul(wn, gd)) == 0, "C06:portion-literal-denotes-the-written-fraction")
	}
	zzvrt.Reach("c06-literal-end")
}

func zzSplitRat(s string) (*big.Int, *big.Int) {
	p := strings.Split(s, "/")
	n, _ := new(big.Int).SetString(p[0], 10)
	d, _ := new(big.Int).SetString(p[1], 10)
	return n, d
}

// zzJSONIsText: b is a JSON string (whatever escapes it uses) that decodes to exactly text.
func zzJSONIsText(b []byte, text string) {
	var got string
	err := json.Unmarshal(b, &got)
	zzvrt.Assert(err == nil, "C13:json-form-is-valid-json")
	if err == nil {
		zzvrt.Assert(zzvrt.StrEq(got, text), "C13:json-is-the-quoted-text")
	}
}

// ZZC13VarText: a number / monetary variable given as text denotes the base-ten reading of
// its digits (leading zeros, explicit sign), or is rejected; want = expected String() of the
// value, "" when the text is not a value of the type.
func ZZC13VarText(typ, text, want string) {
	p := Parse("vars {\n  " + typ + " $v\n}\nset_tx_meta(\"k\", $v)\nset_account_meta(@x, \"k\", $v)")
	res, err := p.Run(context.Background(), VariablesMap{"v": text}, StaticStore{})
	if want == "" {
		zzvrt.Assert(err != nil, "C13:text-that-is-not-a-value-is-rejected")
		zzvrt.Reach("c13-vartext-end")
		return
	}
	zzvrt.Assert(err == nil, "C13:value-of-the-type-accepted")
	if err == nil {
		zzvrt.Assert(res.Metadata["k"].String() == want, "C13:variable-text-read-in-base-ten")
		zzvrt.Assert(res.AccountsMetadata["x"]["k"] == want, "C13:variable-text-read-in-base-ten")
	}
	zzvrt.Reach("c13-vartext-end")
}

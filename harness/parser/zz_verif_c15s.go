package parser

import (
	"github.com/formancehq/numscript/internal/zzvrt"
)

// An independent rendering of the parsed tree (S-expression), compared with the
// rendering the case generator builds together with the script text.

func zzExpr(x ValueExpr) string {
	switch e := x.(type) {
	case nil:
		return "<nil>"
	case *Variable:
		if e == nil {
			return "<nil>"
		}
		return "$" + e.Name
	case *AccountLiteral:
		return "@" + e.Name
	case *AssetLiteral:
		return e.Asset
	case *NumberLiteral:
		if e.Number < 0 {
			return "-" + zzItoa(-e.Number)
		}
		return zzItoa(e.Number)
	case *StringLiteral:
		return "\"" + e.String + "\""
	case *RatioLiteral:
		return zzvrt.Dec(e.Numerator) + "/" + zzvrt.Dec(e.Denominator)
	case *MonetaryLiteral:
		return "(mon " + zzExpr(e.Asset) + " " + zzExpr(e.Amount) + ")"
	case *BinaryInfix:
		return "(" + string(e.Operator) + " " + zzExpr(e.Left) + " " + zzExpr(e.Right) + ")"
	}
	return "<?expr>"
}

func zzAllotVal(a AllotmentValue) string {
	switch v := a.(type) {
	case *RatioLiteral:
		return zzExpr(v)
	case *Variable:
		return zzExpr(v)
	case *RemainingAllotment:
		return "remaining"
	}
	return "<?allot>"
}

func zzSource(s Source) string {
	switch s := s.(type) {
	case nil:
		return "<nil>"
	case *SourceAccount:
		return "(acc " + zzExpr(s.ValueExpr) + ")"
	case *SourceOverdraft:
		if s.Bounded == nil {
			return "(od " + zzExpr(s.Address) + " unbounded)"
		}
		return "(od " + zzExpr(s.Address) + " " + zzExpr(*s.Bounded) + ")"
	case *SourceInorder:
		out := "(inorder"
		for _, x := range s.Sources {
			out += " " + zzSource(x)
		}
		return out + ")"
	case *SourceCapped:
		return "(cap " + zzExpr(s.Cap) + " " + zzSource(s.From) + ")"
	case *SourceAllotment:
		out := "(allot"
		for _, it := range s.Items {
			out += " (" + zzAllotVal(it.Allotment) + " " + zzSource(it.From) + ")"
		}
		return out + ")"
	}
	return "<?source>"
}

func zzKOD(k KeptOrDestination) string {
	switch t := k.(type) {
	case nil:
		return "<nil>"
	case *DestinationKept:
		return "kept"
	case *DestinationTo:
		return "(to " + zzDest(t.Destination) + ")"
	}
	return "<?kod>"
}

func zzDest(d Destination) string {
	switch d := d.(type) {
	case nil:
		return "<nil>"
	case *DestinationAccount:
		return "(acc " + zzExpr(d.ValueExpr) + ")"
	case *DestinationInorder:
		out := "(inorder"
		for _, c := range d.Clauses {
			out += " (" + zzExpr(c.Cap) + " " + zzKOD(c.To) + ")"
		}
		return out + " " + zzKOD(d.Remaining) + ")"
	case *DestinationAllotment:
		out := "(allot"
		for _, it := range d.Items {
			out += " (" + zzAllotVal(it.Allotment) + " " + zzKOD(it.To) + ")"
		}
		return out + ")"
	}
	return "<?dest>"
}

func zzSent(v SentValue) string {
	switch s := v.(type) {
	case *SentValueLiteral:
		return "(lit " + zzExpr(s.Monetary) + ")"
	case *SentValueAll:
		return "(all " + zzExpr(s.Asset) + ")"
	}
	return "<?sent>"
}

func zzCall(f *FnCall) string {
	if f == nil || f.Caller == nil {
		return "<nil>"
	}
	out := "(call " + f.Caller.Name
	for _, a := range f.Args {
		out += " " + zzExpr(a)
	}
	return out + ")"
}

func zzProgram(p Program) string {
	out := "(program (vars"
	for _, d := range p.Vars {
		out += " (decl "
		if d.Type != nil {
			out += d.Type.Name
		} else {
			out += "<nil>"
		}
		out += " "
		if d.Name != nil {
			out += d.Name.Name
		} else {
			out += "<nil>"
		}
		if d.Origin != nil {
			out += " " + zzCall(d.Origin)
		}
		out += ")"
	}
	out += ")"
	for _, st := range p.Statements {
		switch s := st.(type) {
		case *SendStatement:
			out += " (send " + zzSent(s.SentValue) + " " + zzSource(s.Source) + " " + zzDest(s.Destination) + ")"
		case *SaveStatement:
			out += " (save " + zzSent(s.SentValue) + " " + zzExpr(s.Amount) + ")"
		case *FnCall:
			out += " " + zzCall(s)
		default:
			out += " <?stmt>"
		}
	}
	return out + ")"
}

// ---- ranges: every range delimits exactly the text of its construct

type zzRangeCheck struct {
	lines []string
}

// slice returns the text covered by r (positions counted in characters).
func (c *zzRangeCheck) slice(r Range) (string, bool) {
	if r.Start.Line < 0 || r.End.Line >= len(c.lines) || r.Start.Line > r.End.Line {
		return "", false
	}
	out := ""
	for l := r.Start.Line; l <= r.End.Line; l++ {
		rs := []rune(c.lines[l])
		lo, hi := 0, len(rs)
		if l == r.Start.Line {
			lo = r.Start.Character
		}
		if l == r.End.Line {
			hi = r.End.Character
		}
		if lo < 0 || hi > len(rs) || lo > hi {
			return "", false
		}
		out += string(rs[lo:hi])
		if l != r.End.Line {
			out += "\n"
		}
	}
	return out, true
}

func zzAfter(a, b Position) bool { return a.GtEq(b) }

func zzHasPrefix(s, p string) bool { return len(s) >= len(p) && s[:len(p)] == p }
func zzHasSuffix(s, p string) bool { return len(s) >= len(p) && s[len(s)-len(p):] == p }

// expect: the text under r starts with `first` and ends with `last`, and lies within parent.
func (c *zzRangeCheck) node(r Range, parent Range, first, last string) {
	zzvrt.Assert(parent.Contains(r.Start) && parent.Contains(r.End), "C15:child-range-within-parent")
	t, ok := c.slice(r)
	zzvrt.Assert(ok, "C15:range-inside-the-text")
	if ok {
		zzvrt.Assert(zzHasPrefix(t, first) && zzHasSuffix(t, last), "C15:range-delimits-exactly-the-construct")
	}
}

func (c *zzRangeCheck) expr(x ValueExpr, parent Range) {
	switch e := x.(type) {
	case *Variable:
		c.node(e.Range, parent, "$"+e.Name, e.Name)
	case *AccountLiteral:
		c.node(e.Range, parent, "@"+e.Name, e.Name)
	case *AssetLiteral:
		c.node(e.Range, parent, e.Asset, e.Asset)
	case *NumberLiteral:
		c.node(e.Range, parent, "", "")
		t, ok := c.slice(e.Range)
		if ok {
			zzvrt.Assert(len(t) > 0 && (t[0] == '-' || (t[0] >= '0' && t[0] <= '9')) && t[len(t)-1] >= '0' && t[len(t)-1] <= '9', "C15:range-delimits-exactly-the-construct")
		}
	case *StringLiteral:
		c.node(e.Range, parent, "\""+e.String, e.String+"\"")
	case *RatioLiteral:
		c.node(e.Range, parent, "", "")
		t, ok := c.slice(e.Range)
		if ok {
			zzvrt.Assert(len(t) > 0 && t[0] >= '0' && t[0] <= '9' && (t[len(t)-1] == '%' || (t[len(t)-1] >= '0' && t[len(t)-1] <= '9')), "C15:range-delimits-exactly-the-construct")
		}
	case *MonetaryLiteral:
		c.node(e.Range, parent, "[", "]")
		c.expr(e.Asset, e.Range)
		c.expr(e.Amount, e.Range)
		c.ordered(e.Asset, e.Amount)
	case *BinaryInfix:
		c.node(e.Range, parent, "", "")
		c.expr(e.Left, e.Range)
		c.expr(e.Right, e.Range)
		c.ordered(e.Left, e.Right)
	}
}

func (c *zzRangeCheck) ordered(a, b Ranged) {
	if a == nil || b == nil {
		return
	}
	ra, rb := a.GetRange(), b.GetRange()
	zzvrt.Assert(rb.Start.GtEq(ra.End), "C15:siblings-in-order-without-overlap")
}

func (c *zzRangeCheck) source(s Source, parent Range) {
	switch s := s.(type) {
	case *SourceAccount:
		c.expr(s.ValueExpr, parent)
	case *SourceOverdraft:
		c.node(s.Range, parent, "", "")
		c.expr(s.Address, s.Range)
		if s.Bounded != nil {
			c.expr(*s.Bounded, s.Range)
			c.ordered(s.Address, *s.Bounded)
		}
	case *SourceInorder:
		c.node(s.Range, parent, "{", "}")
		var prev Source
		for _, x := range s.Sources {
			c.source(x, s.Range)
			if prev != nil {
				zzvrt.Assert(zzAfter(x.GetRange().Start, prev.GetRange().End), "C15:siblings-in-order-without-overlap")
			}
			prev = x
		}
	case *SourceCapped:
		c.node(s.Range, parent, "max", "")
		c.expr(s.Cap, s.Range)
		c.source(s.From, s.Range)
		zzvrt.Assert(zzAfter(s.From.GetRange().Start, s.Cap.GetRange().End), "C15:siblings-in-order-without-overlap")
	case *SourceAllotment:
		c.node(s.Range, parent, "{", "}")
		for i, it := range s.Items {
			c.node(it.Range, s.Range, "", "")
			c.source(it.From, it.Range)
			if i > 0 {
				zzvrt.Assert(it.Range.Start.GtEq(s.Items[i-1].Range.End), "C15:siblings-in-order-without-overlap")
			}
		}
	}
}

func (c *zzRangeCheck) kod(k KeptOrDestination, parent Range) {
	switch t := k.(type) {
	case *DestinationKept:
		c.node(t.Range, parent, "kept", "kept")
	case *DestinationTo:
		c.dest(t.Destination, parent)
	}
}

func (c *zzRangeCheck) dest(d Destination, parent Range) {
	switch d := d.(type) {
	case *DestinationAccount:
		c.expr(d.ValueExpr, parent)
	case *DestinationInorder:
		c.node(d.Range, parent, "{", "}")
		for i, cl := range d.Clauses {
			c.node(cl.Range, d.Range, "max", "")
			c.expr(cl.Cap, cl.Range)
			c.kod(cl.To, cl.Range)
			if i > 0 {
				zzvrt.Assert(cl.Range.Start.GtEq(d.Clauses[i-1].Range.End), "C15:siblings-in-order-without-overlap")
			}
		}
		c.kod(d.Remaining, d.Range)
	case *DestinationAllotment:
		c.node(d.Range, parent, "{", "}")
		for i, it := range d.Items {
			c.node(it.Range, d.Range, "", "")
			c.kod(it.To, it.Range)
			if i > 0 {
				zzvrt.Assert(it.Range.Start.GtEq(d.Items[i-1].Range.End), "C15:siblings-in-order-without-overlap")
			}
		}
	}
}

func (c *zzRangeCheck) call(f *FnCall, parent Range) {
	c.node(f.Range, parent, f.Caller.Name, ")")
	c.node(f.Caller.Range, f.Range, f.Caller.Name, f.Caller.Name)
	var prev ValueExpr
	for _, a := range f.Args {
		c.expr(a, f.Range)
		if prev != nil && a != nil {
			c.ordered(prev, a)
		}
		prev = a
	}
}

func (c *zzRangeCheck) program(p Program, whole Range) {
	for _, d := range p.Vars {
		c.node(d.Range, whole, d.Type.Name, "")
		c.node(d.Type.Range, d.Range, d.Type.Name, d.Type.Name)
		c.node(d.Name.Range, d.Range, "$"+d.Name.Name, d.Name.Name)
		zzvrt.Assert(d.Name.Range.Start.GtEq(d.Type.Range.End), "C15:siblings-in-order-without-overlap")
		if d.Origin != nil {
			c.call(d.Origin, d.Range)
		}
	}
	var prev Statement
	for _, st := range p.Statements {
		if prev != nil {
			zzvrt.Assert(zzAfter(st.GetRange().Start, prev.GetRange().End), "C15:siblings-in-order-without-overlap")
		}
		prev = st
		switch s := st.(type) {
		case *SendStatement:
			c.node(s.Range, whole, "send", ")")
			c.node(s.SentValue.GetRange(), s.Range, "", "")
			switch sv := s.SentValue.(type) {
			case *SentValueLiteral:
				c.expr(sv.Monetary, sv.Range)
			case *SentValueAll:
				c.node(sv.Range, s.Range, "[", "]")
				c.expr(sv.Asset, sv.Range)
			}
			c.source(s.Source, s.Range)
			c.dest(s.Destination, s.Range)
			zzvrt.Assert(zzAfter(s.Source.GetRange().Start, s.SentValue.GetRange().End), "C15:siblings-in-order-without-overlap")
			zzvrt.Assert(zzAfter(s.Destination.GetRange().Start, s.Source.GetRange().End), "C15:siblings-in-order-without-overlap")
		case *SaveStatement:
			c.node(s.Range, whole, "save", "")
			switch sv := s.SentValue.(type) {
			case *SentValueLiteral:
				c.expr(sv.Monetary, s.Range)
			case *SentValueAll:
				c.node(sv.Range, s.Range, "[", "]")
			}
			c.expr(s.Amount, s.Range)
		case *FnCall:
			c.call(s, whole)
		}
	}
}

// ZZC15Structure: the real parser on a generated script; the tree must render
// to `expected`, and every range must delimit its construct.
func ZZC15Structure(text, expected string) {
	res := Parse(text)
	zzvrt.Assert(len(res.Errors) == 0, "C15:well-formed-script-parses")
	if len(res.Errors) != 0 {
		return
	}
	got := zzProgram(res.Value)
	zzvrt.Note(got)
	zzvrt.Assert(got == expected, "C15:tree-has-the-written-structure-and-values")
	c := &zzRangeCheck{lines: splitLines(text)}
	last := len(c.lines) - 1
	whole := Range{Start: Position{Line: 0, Character: 0}, End: Position{Line: last, Character: len([]rune(c.lines[last]))}}
	c.program(res.Value, whole)
	zzvrt.Reach("c15-structure-end")
}

// ZZC15Layout: inserting whitespace, newlines or comments between tokens never changes the tree.
func ZZC15Layout(text, variant string) {
	a, b := Parse(text), Parse(variant)
	zzvrt.Assert(len(a.Errors) == 0 && len(b.Errors) == 0, "C15:well-formed-script-parses")
	if len(a.Errors) != 0 || len(b.Errors) != 0 {
		return
	}
	zzvrt.Assert(zzProgram(a.Value) == zzProgram(b.Value), "C15:layout-does-not-change-the-tree")
	c := &zzRangeCheck{lines: splitLines(variant)}
	last := len(c.lines) - 1
	whole := Range{Start: Position{Line: 0, Character: 0}, End: Position{Line: last, Character: len([]rune(c.lines[last]))}}
	c.program(b.Value, whole)
	zzvrt.Reach("c15-layout-end")
}

package parser

import (
	"math/big"

	"github.com/formancehq/numscript/internal/zzvrt"
)

func zzItoa(i int) string {
	if i == 0 {
		return "0"
	}
	s := ""
	for i > 0 {
		s = string(rune('0'+i%10)) + s
		i /= 10
	}
	return s
}

func zzAtoi(s string) int {
	n := 0
	for i := 0; i < len(s); i++ {
		n = n*10 + int(s[i]-'0')
	}
	return n
}

// zzDigits returns n symbolic decimal digits and their value.
func zzDigits(prefix string, n int) ([]byte, *big.Int) {
	bs := make([]byte, n)
	val := big.NewInt(0)
	for i := 0; i < n; i++ {
		b := zzvrt.Byte(prefix + zzItoa(i))
		zzvrt.Assume(b >= '0')
		zzvrt.Assume(b <= '9')
		bs[i] = b
		val = new(big.Int).Add(zzvrt.MulK(val, 10), big.NewInt(int64(b-'0')))
	}
	return bs, val
}

func zzPow10(n int) *big.Int {
	p := big.NewInt(1)
	for i := 0; i < n; i++ {
		p = zzvrt.MulK(p, 10)
	}
	return p
}

// ZZC13Percent: text = <i digits>[.<f digits>]% with every digit symbolic.
// The literal must denote exactly digits / 10^(f+2), in base ten.
func ZZC13Percent(iLen, fLen string) {
	i, f := zzAtoi(iLen), zzAtoi(fLen)
	ib, _ := zzDigits("i", i)
	text := string(ib)
	all := append([]byte{}, ib...)
	if f > 0 {
		fb, _ := zzDigits("f", f)
		text += "." + string(fb)
		all = append(all, fb...)
	}
	text += "%"
	val := big.NewInt(0)
	for _, b := range all {
		val = new(big.Int).Add(zzvrt.MulK(val, 10), big.NewInt(int64(b-'0')))
	}
	num, den, err := ParsePercentageRatio(text)
	zzvrt.Assert(err == nil, "C13:percent-literal-accepted")
	if err != nil {
		zzvrt.Reach("c13-percent-end")
		return
	}
	zzvrt.Assert(zzvrt.Lt(big.NewInt(0), den), "C13:percent-denominator-positive")
	// num/den == val/10^(f+2)  <=>  num*10^(f+2) == val*den   (den concrete per path)
	lhs := new(big.Int).Mul(num, zzPow10(f+2))
	rhs := new(big.Int).Mul(val, den)
	zzvrt.Assert(zzvrt.Eq(lhs, rhs), "C13:percent-literal-exact-base-ten")
	zzvrt.NoteBig("num", num)
	zzvrt.NoteBig("den", den)
	// the converter used by the tree builder must agree and must not panic
	lit := parsePercentageRatio(text, Range{})
	zzvrt.Assert(zzvrt.Eq(lit.Numerator, num), "C13:percent-literal-node")
	zzvrt.Assert(zzvrt.Eq(lit.Denominator, den), "C13:percent-literal-node")
	zzvrt.Reach("c13-percent-end")
}

// ZZC13Ratio: text = <n digits><sp?>/<sp?><d digits>, spaces per layout bits.
func ZZC13Ratio(nLen, dLen, layout string) {
	n, d := zzAtoi(nLen), zzAtoi(dLen)
	nb, nv := zzDigits("n", n)
	db, dv := zzDigits("d", d)
	text := string(nb)
	if layout[0] == '1' {
		text += " "
	}
	text += "/"
	if layout[1] == '1' {
		text += " "
	}
	text += string(db)
	lit := parseRatio(text, Range{})
	zzvrt.Assert(zzvrt.Eq(lit.Numerator, nv), "C13:ratio-literal-numerator-base-ten")
	zzvrt.Assert(zzvrt.Eq(lit.Denominator, dv), "C13:ratio-literal-denominator-base-ten")
	zzvrt.NoteBig("num", lit.Numerator)
	zzvrt.NoteBig("den", lit.Denominator)
	zzvrt.Reach("c13-ratio-end")
}

package parser

import (
	"math/big"

	"github.com/antlr4-go/antlr/v4"
	"github.com/formancehq/numscript/internal/zzvrt"
)

// Token / node stubs: exactly the observations the conversion layer makes of
// ANTLR objects (text, 1-based line, 0-based column in code points, index).
type zzTok struct {
	antlr.Token
	text  string
	line  int
	col   int
	index int
	// character offsets in the input, as ANTLR gives them: first and last character
	// of the token (end of input: start = size of the input, stop = start - 1)
	start, stop int
}

func (t *zzTok) GetStart() int { return t.start }
func (t *zzTok) GetStop() int  { return t.stop }

// zzPlace sets the offsets of a token of n characters starting at character offset start.
func (t *zzTok) zzPlace(start, n int) *zzTok {
	t.start = start
	t.stop = start + n - 1
	return t
}

func (t *zzTok) GetText() string    { return t.text }
func (t *zzTok) GetLine() int       { return t.line }
func (t *zzTok) GetColumn() int     { return t.col }
func (t *zzTok) GetTokenIndex() int { return t.index }

type zzTermNode struct {
	antlr.TerminalNode
	tk antlr.Token
}

func (n *zzTermNode) GetText() string        { return n.tk.GetText() }
func (n *zzTermNode) GetSymbol() antlr.Token { return n.tk }

type zzRuleCtx struct {
	antlr.ParserRuleContext
	start, stop antlr.Token
}

func (c *zzRuleCtx) GetStart() antlr.Token { return c.start }
func (c *zzRuleCtx) GetStop() antlr.Token  { return c.stop }

// zzUTF8 builds a valid UTF-8 text from a layout of character byte-lengths
// ("121" = 1-byte, 2-byte, 1-byte characters); every byte is symbolic.
func zzUTF8(prefix, layout string) string {
	var bs []byte
	k := 0
	next := func() byte {
		b := zzvrt.Byte(prefix + zzItoa(k))
		k++
		return b
	}
	cont := func() byte {
		b := next()
		zzvrt.Assume(zzvrt.And(b >= 0x80, b <= 0xBF))
		return b
	}
	for i := 0; i < len(layout); i++ {
		switch layout[i] {
		case '1':
			b := next()
			zzvrt.Assume(zzvrt.And(b < 0x80, b != '\n'))
			bs = append(bs, b)
		case '2':
			b := next()
			zzvrt.Assume(zzvrt.And(b >= 0xC2, b <= 0xDF))
			bs = append(bs, b, cont())
		case '3':
			b := next()
			zzvrt.Assume(zzvrt.And(b >= 0xE1, b <= 0xEC))
			bs = append(bs, b, cont(), cont())
		case '4':
			b := next()
			zzvrt.Assume(zzvrt.And(b >= 0xF1, b <= 0xF3))
			bs = append(bs, b, cont(), cont(), cont())
		}
	}
	return string(bs)
}

// ZZC14Number: parseNumberLiteral on a NUMBER token text: optional '-', n symbolic digits.
func ZZC14Number(neg, nDigits string) {
	n := zzAtoi(nDigits)
	ds, val := zzDigits("d", n)
	text := string(ds)
	if neg == "1" {
		text = "-" + text
	}
	// NumberLiteral.Number is a machine int: values outside its range cannot be represented (known finding)
	maxInt := new(big.Int).SetInt64(int64(^uint(0) >> 1))
	limit := maxInt
	if neg == "1" {
		limit = new(big.Int).Add(maxInt, big.NewInt(1))
	}
	zzvrt.Region("number-literal-beyond-machine-int", zzvrt.Lt(limit, val))
	tk := (&zzTok{text: text, line: 1, col: 0, index: 0}).zzPlace(0, len(text))
	lit := parseNumberLiteral(&zzTermNode{tk: tk})
	zzvrt.Assert(lit != nil, "C14:number-literal-converted")
	if lit != nil {
		want := val
		if neg == "1" {
			want = new(big.Int).Neg(val)
		}
		zzvrt.Assert(zzvrt.Eq(big.NewInt(int64(lit.Number)), want), "C14:number-literal-value")
	}
	zzvrt.Reach("c14-number-end")
}

// ZZC14SyntaxError: the listener turns ANTLR's report into a located error.
func ZZC14SyntaxError(layout string) {
	l := &ErrorListener{}
	line := zzvrt.Int("line", 1, 1<<40)
	col := zzvrt.Int("col", 0, 1<<40)
	var sym interface{}
	if layout == "none" {
		sym = nil
	} else {
		// len(layout) characters, somewhere at or after (line, col) in the input
		sym = (&zzTok{text: zzUTF8("t", layout), line: line, col: col}).zzPlace(zzvrt.Int("start", 0, 1<<40), len(layout))
	}
	l.SyntaxError(nil, sym, line, col, "msg", nil)
	zzvrt.Assert(len(l.Errors) == 1, "C14:one-error-recorded")
	if len(l.Errors) != 1 {
		return
	}
	r := l.Errors[0].Range
	zzvrt.Assert(zzvrt.And(r.Start.Line == line-1, r.Start.Character == col), "C14:error-starts-at-reported-position")
	zzvrt.Assert(r.End.GtEq(r.Start), "C14:error-does-not-end-before-it-starts")
	zzvrt.Reach("c14-syntaxerror-end")
}

// ZZC14Show: rendering an error located anywhere in a small source (or at its end) never panics.
// shape: line lengths, e.g. "3,0,2"; tokLayout: layout of the offending token ("eof" for <EOF>).
func ZZC14Show(shape, tokLayout string) {
	var lens []int
	cur := 0
	for i := 0; i <= len(shape); i++ {
		if i == len(shape) || shape[i] == ',' {
			lens = append(lens, cur)
			cur = 0
			continue
		}
		cur = cur*10 + int(shape[i]-'0')
	}
	src := ""
	for i, n := range lens {
		if i > 0 {
			src += "\n"
		}
		for j := 0; j < n; j++ {
			src += "x"
		}
	}
	lineIdx := zzvrt.Choice("line", len(lens))
	l := &ErrorListener{}
	var sym interface{}
	var col int
	if tokLayout == "eof" {
		// ANTLR reports <EOF> at the end of the last line
		lineIdx = len(lens) - 1
		col = lens[lineIdx]
		sym = (&zzTok{text: "<EOF>", line: lineIdx + 1, col: col}).zzPlace(len(src), 0)
	} else {
		nChars := len(tokLayout)
		if lens[lineIdx] < nChars {
			zzvrt.Reach("skipped-token-does-not-fit")
			return
		}
		col = zzvrt.Int("col", 0, lens[lineIdx]-nChars)
		off := col
		for i := 0; i < lineIdx; i++ {
			off += lens[i] + 1
		}
		sym = (&zzTok{text: zzUTF8("t", tokLayout), line: lineIdx + 1, col: col}).zzPlace(off, nChars)
	}
	l.SyntaxError(nil, sym, lineIdx+1, col, "mismatched input", nil)
	out := ParseErrorsToString(l.Errors, src)
	_ = out
	zzvrt.Reach("c14-show-end")
}

// ZZC14ParseText: the real parser (native, ANTLR is outside the encoding) on a
// concrete text, then the hand-written error rendering executed in the VM.
// expectValid: "1" = the text is a syntactically valid script, "0" = it is not, "" = unknown.
func ZZC14ParseText(text, expectValid string) {
	res := Parse(text)
	lines := splitLines(text)
	for _, e := range res.Errors {
		s := e.Range.Start
		ok := s.Line >= 0 && s.Line < len(lines) && s.Character >= 0
		if ok {
			ok = s.Character <= runeLen(lines[s.Line])
		}
		zzvrt.Assert(ok, "C14:error-starts-inside-the-text-or-at-its-end")
	}
	if expectValid == "1" {
		zzvrt.Assert(len(res.Errors) == 0, "C14:valid-script-accepted")
	}
	if expectValid == "0" {
		zzvrt.Assert(len(res.Errors) > 0, "C14:invalid-input-reported")
	}
	if len(res.Errors) > 0 {
		out := ParseErrorsToString(res.Errors, text)
		zzvrt.Assert(len(out) > 0, "C14:errors-rendered")
	}
	zzvrt.Note("errors=" + zzItoa(len(res.Errors)))
	zzvrt.Reach("c14-parse-end")
}

func splitLines(s string) []string {
	var out []string
	start := 0
	for i := 0; i < len(s); i++ {
		if s[i] == '\n' {
			out = append(out, s[start:i])
			start = i + 1
		}
	}
	return append(out, s[start:])
}

func runeLen(s string) int {
	n := 0
	for i := 0; i < len(s); i++ {
		if s[i]&0xC0 != 0x80 {
			n++
		}
	}
	return n
}

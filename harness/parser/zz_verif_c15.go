package parser

import (
	"github.com/formancehq/numscript/internal/zzvrt"
)

// ZZC15TokenRange: a token at (line, column) whose text has the given UTF-8
// layout spans exactly len(layout) characters.
func ZZC15TokenRange(layout string) {
	line := zzvrt.Int("line", 1, 1<<40)
	col := zzvrt.Int("col", 0, 1<<40)
	tk := (&zzTok{text: zzUTF8("t", layout), line: line, col: col, index: 3}).zzPlace(zzvrt.Int("start", 0, 1<<40), len(layout))
	r := tokenToRange(tk)
	zzvrt.Assert(zzvrt.And(r.Start.Line == line-1, r.Start.Character == col), "C15:token-range-starts-at-token")
	zzvrt.Assert(r.End.Line == line-1, "C15:token-range-on-one-line")
	zzvrt.Assert(r.End.Character-r.Start.Character == len(layout), "C15:token-range-counts-characters")
	zzvrt.Reach("c15-token-end")
}

// ZZC15CtxRange: a construct from token A to token B (B later in the text).
func ZZC15CtxRange(layoutA, layoutB, sameLine string) {
	lineA := zzvrt.Int("lineA", 1, 1<<40)
	colA := zzvrt.Int("colA", 0, 1<<40)
	startA := zzvrt.Int("startA", 0, 1<<40)
	a := (&zzTok{text: zzUTF8("a", layoutA), line: lineA, col: colA, index: 1}).zzPlace(startA, len(layoutA))
	var b *zzTok
	if sameLine == "1" {
		gap := zzvrt.Int("gap", 0, 1<<20)
		b = (&zzTok{text: zzUTF8("b", layoutB), line: lineA, col: colA + len(layoutA) + gap, index: 2}).zzPlace(startA+len(layoutA)+gap, len(layoutB))
	} else {
		dl := zzvrt.Int("dl", 1, 1<<20)
		colB := zzvrt.Int("colB", 0, 1<<40)
		// at least one newline per line break and colB characters lie between the two tokens
		b = (&zzTok{text: zzUTF8("b", layoutB), line: lineA + dl, col: colB, index: 2}).zzPlace(startA+len(layoutA)+dl+colB+zzvrt.Int("between", 0, 1<<20), len(layoutB))
	}
	r := ctxToRange(&zzRuleCtx{start: a, stop: b})
	zzvrt.Assert(zzvrt.And(r.Start.Line == lineA-1, r.Start.Character == colA), "C15:construct-range-starts-at-first-token")
	zzvrt.Assert(zzvrt.And(r.End.Line == b.line-1, r.End.Character == b.col+len(layoutB)), "C15:construct-range-ends-past-last-token-in-characters")
	zzvrt.Assert(r.End.GtEq(r.Start), "C15:construct-range-ordered")
	// the ranges of the two tokens lie inside the construct's range
	ra, rb := tokenToRange(a), tokenToRange(b)
	zzvrt.Assert(zzvrt.And(r.Contains(ra.Start), r.Contains(ra.End)), "C15:child-within-parent")
	zzvrt.Assert(zzvrt.And(r.Contains(rb.Start), r.Contains(rb.End)), "C15:child-within-parent")
	zzvrt.Assert(rb.Start.GtEq(ra.End), "C15:siblings-in-order-without-overlap")
	zzvrt.Reach("c15-ctx-end")
}

func zzPos(name string) Position {
	return Position{Line: zzvrt.Int(name+"_line", 0, 1<<40), Character: zzvrt.Int(name+"_char", 0, 1<<40)}
}

// ZZC15Order: GtEq is the lexicographic total order on (line, character) and
// Contains is start <= p <= end.
func ZZC15Order(_ string) {
	p, q, r := zzPos("p"), zzPos("q"), zzPos("r")
	lex := func(a, b Position) bool {
		return zzvrt.Or(a.Line > b.Line, zzvrt.And(a.Line == b.Line, a.Character >= b.Character))
	}
	pq, qp, qr, pr := p.GtEq(q), q.GtEq(p), q.GtEq(r), p.GtEq(r)
	zzvrt.Assert(zzvrt.Iff(pq, lex(p, q)), "C15:gteq-is-lexicographic")
	zzvrt.Assert(p.GtEq(p), "C15:gteq-reflexive")
	zzvrt.Assert(zzvrt.Or(pq, qp), "C15:gteq-total")
	zzvrt.Assert(zzvrt.Implies(zzvrt.And(pq, qp), zzvrt.And(p.Line == q.Line, p.Character == q.Character)), "C15:gteq-antisymmetric")
	zzvrt.Assert(zzvrt.Implies(zzvrt.And(pq, qr), pr), "C15:gteq-transitive")
	rng := Range{Start: q, End: r}
	zzvrt.Assert(zzvrt.Iff(rng.Contains(p), zzvrt.And(lex(p, q), lex(r, p))), "C15:contains-is-closed-interval")
	zzvrt.Reach("c15-order-end")
}

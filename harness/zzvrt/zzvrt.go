// Package zzvrt is the harness runtime. Natively (replay) the functions below
// read the solver's assignment from a JSON file; in the symbolic VM every call
// into this package is intercepted by name and never executes these bodies.
package zzvrt

import (
	"bytes"
	"encoding/json"
	"fmt"
	"math/big"
	"os"
	"os/exec"
	"path/filepath"
	"reflect"
	"runtime/debug"
	"sort"
	"strings"
	"sync"
)

type Replay struct {
	Property string            `json:"property"`
	Harness  string            `json:"harness"`
	Package  string            `json:"package"`
	Args     []string          `json:"args"`
	Values   map[string]string `json:"values"`
	Expect   string            `json:"expect"` // assertion id or "panic"
	Msg      string            `json:"msg,omitempty"`
}

type Outcome struct {
	Failed  []string `json:"failed"`
	Panic   string   `json:"panic,omitempty"`
	Invalid string   `json:"invalid,omitempty"`
	Notes   []string `json:"notes,omitempty"`
	Reached []string `json:"reached,omitempty"`
}

var (
	cur     Replay
	out     Outcome
	counter map[string]int
	mu      sync.Mutex
)

type assumeFailed struct{ what string }

func Load(path string) (Replay, error) {
	b, err := os.ReadFile(path)
	if err != nil {
		return Replay{}, err
	}
	var r Replay
	if err := json.Unmarshal(b, &r); err != nil {
		return Replay{}, err
	}
	cur = r
	out = Outcome{}
	counter = map[string]int{}
	replayPath = path
	once = nil
	cliCalls = 0
	stdinFile = ""
	return r, nil
}

// Run executes f, turning panics of the code under test into an outcome.
func Run(f func()) (res Outcome) {
	defer func() {
		if r := recover(); r != nil {
			if af, ok := r.(assumeFailed); ok {
				out.Invalid = "assumption failed: " + af.what
			} else {
				st := string(debug.Stack())
				if len(st) > 4000 {
					st = st[:4000]
				}
				out.Panic = fmt.Sprint(r) + "\n" + st
			}
		}
		res = out
	}()
	f()
	return
}

func sanitize(s string) string {
	var sb strings.Builder
	for _, c := range s {
		switch {
		case c >= 'a' && c <= 'z', c >= 'A' && c <= 'Z', c >= '0' && c <= '9', c == '_':
			sb.WriteRune(c)
		default:
			sb.WriteByte('_')
		}
	}
	r := sb.String()
	if r == "" || (r[0] >= '0' && r[0] <= '9') {
		r = "v_" + r
	}
	return r
}

func fresh(name string) string {
	base := sanitize(name)
	if counter == nil {
		counter = map[string]int{}
	}
	n := counter[base]
	counter[base] = n + 1
	if n == 0 {
		return base
	}
	return fmt.Sprintf("%s__%d", base, n)
}

func value(name string) *big.Int {
	s, ok := cur.Values[fresh(name)]
	if !ok {
		return new(big.Int)
	}
	v, ok := new(big.Int).SetString(s, 10)
	if !ok {
		panic("zzvrt: bad value for " + name + ": " + s)
	}
	return v
}

func Symbolic() bool { return false }

func BigInt(name string) *big.Int { return value(name) }

var once map[string]*big.Int

// BigIntOnce is BigInt with one symbol per name, however often it is asked for.
func BigIntOnce(name string) *big.Int {
	if once == nil {
		once = map[string]*big.Int{}
	}
	if v, ok := once[name]; ok {
		return v
	}
	v := value(name)
	once[name] = v
	return v
}

// HasPrefix is strings.HasPrefix, decided structurally when the strings are symbolic.
func HasPrefix(s, prefix string) bool { return strings.HasPrefix(s, prefix) }

func Int(name string, lo, hi int) int {
	v := value(name)
	if !v.IsInt64() || int(v.Int64()) < lo || int(v.Int64()) > hi {
		panic(assumeFailed{fmt.Sprintf("Int %s=%s outside [%d,%d]", name, v, lo, hi)})
	}
	return int(v.Int64())
}

func Bool(name string) bool { return value(name).Sign() != 0 }

func Byte(name string) byte {
	v := value(name)
	if !v.IsInt64() || v.Int64() < 0 || v.Int64() > 255 {
		panic(assumeFailed{"byte " + name + " out of range"})
	}
	return byte(v.Int64())
}

// Choice is a finite choice 0..n-1; the VM forks over it.
func Choice(name string, n int) int {
	v := value(name)
	if !v.IsInt64() || v.Int64() < 0 || int(v.Int64()) >= n {
		panic(assumeFailed{"choice " + name + " out of range"})
	}
	return int(v.Int64())
}

func Assume(c bool) {
	if !c {
		panic(assumeFailed{"Assume"})
	}
}

func Assert(c bool, id string) {
	if !c {
		mu.Lock()
		out.Failed = append(out.Failed, id)
		mu.Unlock()
	}
}

// Region names a set of inputs (a predicate over the harness's symbolic inputs).
// Known findings refer to regions; the VM reports separately any violation
// outside the regions its first model lies in.
func Region(name string, cond bool) {}

func Reach(id string) {
	mu.Lock()
	out.Reached = append(out.Reached, id)
	mu.Unlock()
}

func Note(s string) {
	mu.Lock()
	out.Notes = append(out.Notes, s)
	mu.Unlock()
}

func NoteBig(label string, x *big.Int) {
	mu.Lock()
	defer mu.Unlock()
	if x == nil {
		out.Notes = append(out.Notes, label+"=<nil>")
		return
	}
	out.Notes = append(out.Notes, label+"="+x.String())
}

func Dec(x *big.Int) string { return x.String() }

// ---- write-confinement monitor (native side: deep fingerprints of the roots)

var frozenRoots []interface{}
var frozenPrint string

func fingerprint(v reflect.Value, seen map[uintptr]bool, sb *strings.Builder, depth int) {
	if depth > 60 {
		sb.WriteString("…")
		return
	}
	if !v.IsValid() {
		sb.WriteString("<invalid>")
		return
	}
	switch v.Kind() {
	case reflect.Ptr:
		if v.IsNil() {
			sb.WriteString("nil")
			return
		}
		if seen[v.Pointer()] {
			sb.WriteString("<seen>")
			return
		}
		seen[v.Pointer()] = true
		sb.WriteString("&")
		fingerprint(v.Elem(), seen, sb, depth+1)
	case reflect.Interface:
		if v.IsNil() {
			sb.WriteString("nil")
			return
		}
		sb.WriteString(v.Elem().Type().String() + ":")
		fingerprint(v.Elem(), seen, sb, depth+1)
	case reflect.Struct:
		sb.WriteString("{")
		for i := 0; i < v.NumField(); i++ {
			fingerprint(v.Field(i), seen, sb, depth+1)
			sb.WriteString(",")
		}
		sb.WriteString("}")
	case reflect.Slice, reflect.Array:
		if v.Kind() == reflect.Slice && v.IsNil() {
			sb.WriteString("nil")
			return
		}
		sb.WriteString("[")
		for i := 0; i < v.Len(); i++ {
			fingerprint(v.Index(i), seen, sb, depth+1)
			sb.WriteString(",")
		}
		sb.WriteString("]")
	case reflect.Map:
		if v.IsNil() {
			sb.WriteString("nil")
			return
		}
		var entries []string
		it := v.MapRange()
		for it.Next() {
			var kb, vb strings.Builder
			fingerprint(it.Key(), seen, &kb, depth+1)
			fingerprint(it.Value(), seen, &vb, depth+1)
			entries = append(entries, kb.String()+"=>"+vb.String())
		}
		sort.Strings(entries)
		sb.WriteString("map[" + strings.Join(entries, ";") + "]")
	case reflect.String:
		sb.WriteString(fmt.Sprintf("%q", v.String()))
	case reflect.Bool:
		sb.WriteString(fmt.Sprint(v.Bool()))
	case reflect.Int, reflect.Int8, reflect.Int16, reflect.Int32, reflect.Int64:
		sb.WriteString(fmt.Sprint(v.Int()))
	case reflect.Uint, reflect.Uint8, reflect.Uint16, reflect.Uint32, reflect.Uint64, reflect.Uintptr:
		sb.WriteString(fmt.Sprint(v.Uint()))
	case reflect.Float32, reflect.Float64:
		sb.WriteString(fmt.Sprint(v.Float()))
	case reflect.Func, reflect.Chan, reflect.UnsafePointer:
		sb.WriteString("<" + v.Kind().String() + ">")
	default:
		sb.WriteString("<?>")
	}
}

func printRoots(roots []interface{}) string {
	var sb strings.Builder
	for _, r := range roots {
		fingerprint(reflect.ValueOf(r), map[uintptr]bool{}, &sb, 0)
		sb.WriteString("|")
	}
	return sb.String()
}

// Freeze snapshots the given roots (in the VM: also every package-level variable).
func Freeze(roots ...interface{}) {
	frozenRoots = roots
	frozenPrint = printRoots(roots)
}

// FrozenWrites is the number of writes to frozen objects (natively: 1 if the roots changed).
func FrozenWrites() int {
	if printRoots(frozenRoots) != frozenPrint {
		return 1
	}
	return 0
}

// ---- command-line environment (natively: real files, real stdin, a child process)

type CLIOut struct {
	Exited bool
	Code   int
	Stdout string
	Stderr string
}

var (
	replayPath string
	stdinFile  string
	cliCalls   int
	lastStdout string
)

func tempDir() string {
	d := os.Getenv("ZZ_TMPDIR")
	if d == "" {
		d, _ = os.MkdirTemp("", "zzvrt")
		os.Setenv("ZZ_TMPDIR", d)
	}
	return d
}

// TempFile makes `content` readable at the returned path.
func TempFile(name, content string) string {
	p := filepath.Join(tempDir(), name)
	os.WriteFile(p, []byte(content), 0o644)
	return p
}

// JSONFile makes the JSON encoding of v readable at the returned path.
func JSONFile(name string, v interface{}) string {
	b, err := json.Marshal(v)
	if err != nil {
		panic(assumeFailed{"JSONFile: " + err.Error()})
	}
	return TempFile(name, string(b))
}

// JSONString is the JSON text of v.
func JSONString(v interface{}) string {
	b, err := json.Marshal(v)
	if err != nil {
		panic(assumeFailed{"JSONString: " + err.Error()})
	}
	return string(b)
}

// SetStdinJSON makes the JSON encoding of v the content of the command's standard input.
func SetStdinJSON(v interface{}) {
	stdinFile = JSONFile("stdin.json", v)
}

const cliBegin, cliEnd = "\x01ZZ-CLI-BEGIN\x01", "\x01ZZ-CLI-END\x01"

// CLI runs f as the body of a command: what it prints and whether (and how) it
// exits are observed. Natively f runs in a child process (the test binary
// re-executed on the same replay), because os.Exit cannot be intercepted.
func CLI(f func()) CLIOut {
	cliCalls++
	if os.Getenv("ZZ_CLI_CHILD") == fmt.Sprint(cliCalls) {
		if stdinFile != "" {
			if fh, err := os.Open(stdinFile); err == nil {
				os.Stdin = fh
			}
		}
		os.Stdout.WriteString(cliBegin)
		os.Stderr.WriteString(cliBegin)
		f()
		os.Stdout.WriteString(cliEnd)
		os.Stderr.WriteString(cliEnd)
		os.Exit(0)
	}
	lp := filepath.Join(tempDir(), fmt.Sprintf("child-list-%d.json", cliCalls))
	lb, _ := json.Marshal([]string{replayPath})
	os.WriteFile(lp, lb, 0o644)
	cmd := exec.Command(os.Args[0], "-test.run=^TestZZVerifReplay$")
	cmd.Env = append(os.Environ(), "ZZ_CLI_CHILD="+fmt.Sprint(cliCalls), "VERIF_REPLAY_LIST="+lp)
	var so, se bytes.Buffer
	cmd.Stdout, cmd.Stderr = &so, &se
	err := cmd.Run()
	code := 0
	if ee, ok := err.(*exec.ExitError); ok {
		code = ee.ExitCode()
	} else if err != nil {
		panic(assumeFailed{"CLI child: " + err.Error()})
	}
	cut := func(s string) (string, bool) {
		i := strings.Index(s, cliBegin)
		if i < 0 {
			return "", false
		}
		s = s[i+len(cliBegin):]
		if j := strings.Index(s, cliEnd); j >= 0 {
			return s[:j], true
		}
		return s, false
	}
	stdout, finished := cut(so.String())
	stderr, _ := cut(se.String())
	lastStdout = stdout
	out := CLIOut{Exited: !finished, Code: code, Stdout: stdout, Stderr: stderr}
	if finished {
		out.Code = 0
	}
	return out
}

// StdoutIsJSONOf: the last command printed exactly the JSON encoding of v.
func StdoutIsJSONOf(v interface{}) bool {
	b, err := json.Marshal(v)
	if err != nil {
		return false
	}
	return lastStdout == string(b)
}

// Stubbed returns the recorded argument lists of a function the VM replaced by a
// recording stub (natively: nothing is stubbed, so nothing is recorded).
func Stubbed(name string) []interface{} { return nil }

// MapOrder asks the VM to explore every iteration order of the maps ranged over from now on.
func MapOrder(on bool) {}

// Concurrently runs f(0..n-1) from n goroutines (sequentially in the VM).
func Concurrently(n int, f func(i int)) {
	var wg sync.WaitGroup
	for i := 0; i < n; i++ {
		wg.Add(1)
		go func(i int) {
			defer wg.Done()
			f(i)
		}(i)
	}
	wg.Wait()
}

func And(a, b bool) bool     { return a && b }
func Or(a, b bool) bool      { return a || b }
func Not(a bool) bool        { return !a }
func Implies(a, b bool) bool { return !a || b }
func Iff(a, b bool) bool     { return a == b }

func Eq(x, y *big.Int) bool { return x.Cmp(y) == 0 }
func Le(x, y *big.Int) bool { return x.Cmp(y) <= 0 }
func Lt(x, y *big.Int) bool { return x.Cmp(y) < 0 }

func Ite(c bool, x, y *big.Int) *big.Int {
	if c {
		return new(big.Int).Set(x)
	}
	return new(big.Int).Set(y)
}

func IteInt(c bool, x, y int) int {
	if c {
		return x
	}
	return y
}

func Min(x, y *big.Int) *big.Int {
	if x.Cmp(y) <= 0 {
		return new(big.Int).Set(x)
	}
	return new(big.Int).Set(y)
}

func Max(x, y *big.Int) *big.Int {
	if x.Cmp(y) >= 0 {
		return new(big.Int).Set(x)
	}
	return new(big.Int).Set(y)
}

func Clamp0(x *big.Int) *big.Int {
	if x.Sign() < 0 {
		return new(big.Int)
	}
	return new(big.Int).Set(x)
}

func StrEq(a, b string) bool { return a == b }

// FloorDiv is floor(x / d) for a concrete positive d.
func FloorDiv(x *big.Int, d int64) *big.Int {
	q, m := new(big.Int), new(big.Int)
	q.DivMod(x, big.NewInt(d), m)
	return q
}

// MulK is x * k for a concrete k.
func MulK(x *big.Int, k int64) *big.Int { return new(big.Int).Mul(x, big.NewInt(k)) }

// Outcome access for the replay driver.
func Result() Outcome { return out }

func Emit(o Outcome) {
	b, _ := json.Marshal(o)
	fmt.Println("REPLAY-RESULT " + string(b))
}

package interpreter

import (
	"math/big"

	"github.com/formancehq/numscript/internal/zzvrt"
)

func zzDigits13(prefix string, n int) ([]byte, *big.Int) {
	bs := make([]byte, n)
	val := big.NewInt(0)
	for i := 0; i < n; i++ {
		b := zzvrt.Byte(prefix + zzItoa(i))
		zzvrt.Assume(b >= '0')
		zzvrt.Assume(b <= '9')
		bs[i] = b
		val = new(big.Int).Add(zzvrt.MulK(val, 10), big.NewInt(int64(b-'0')))
	}
	return bs, val
}

func zzPow10b(n int) *big.Int {
	p := big.NewInt(1)
	for i := 0; i < n; i++ {
		p = zzvrt.MulK(p, 10)
	}
	return p
}

// ZZC13PortionVarPercent: a portion variable written <i digits>[.<f digits>]%.
func ZZC13PortionVarPercent(iLen, fLen string) {
	i, f := int(zzAtoi(iLen)), int(zzAtoi(fLen))
	ib, _ := zzDigits13("i", i)
	text := string(ib)
	all := append([]byte{}, ib...)
	if f > 0 {
		fb, _ := zzDigits13("f", f)
		text += "." + string(fb)
		all = append(all, fb...)
	}
	text += "%"
	val := big.NewInt(0)
	for _, b := range all {
		val = new(big.Int).Add(zzvrt.MulK(val, 10), big.NewInt(int64(b-'0')))
	}
	scale := zzPow10b(f + 2)
	inRange := zzvrt.Le(val, scale) // value in [0,1]
	res, err := ParsePortionSpecific(text)
	if err != nil {
		_, isBad := err.(BadPortionParsingErr)
		zzvrt.Assert(isBad, "C13:portion-variable-error-class")
		zzvrt.Assert(zzvrt.Not(inRange), "C13:portion-variable-in-range-accepted")
		zzvrt.Reach("c13-portionvar-end")
		return
	}
	zzvrt.Assert(inRange, "C13:portion-variable-out-of-range-rejected")
	want := new(big.Rat).SetFrac(val, scale)
	zzvrt.Assert(res.Cmp(want) == 0, "C13:portion-variable-exact-base-ten")
	zzvrt.Reach("c13-portionvar-end")
}

// ZZC13PortionVarRatio: a portion variable written <n digits><sp?>/<sp?><den>,
// numerator digits symbolic, denominator text concrete.
func ZZC13PortionVarRatio(nLen, den, layout string) {
	n := int(zzAtoi(nLen))
	nb, nv := zzDigits13("n", n)
	text := string(nb)
	if layout[0] == '1' {
		text += " "
	}
	text += "/"
	if layout[1] == '1' {
		text += " "
	}
	text += den
	dv := big.NewInt(zzAtoi(den)) // base ten, leading zeros ignored
	res, err := ParsePortionSpecific(text)
	if dv.Sign() == 0 {
		// n/0 is not a number: it must be rejected, not crash
		zzvrt.Assert(err != nil, "C13:portion-variable-zero-denominator-rejected")
		zzvrt.Reach("c13-portionvar-end")
		return
	}
	inRange := zzvrt.Le(nv, dv)
	if err != nil {
		_, isBad := err.(BadPortionParsingErr)
		zzvrt.Assert(isBad, "C13:portion-variable-error-class")
		zzvrt.Assert(zzvrt.Not(inRange), "C13:portion-variable-in-range-accepted")
		zzvrt.Reach("c13-portionvar-end")
		return
	}
	zzvrt.Assert(inRange, "C13:portion-variable-out-of-range-rejected")
	want := new(big.Rat).SetFrac(nv, dv)
	zzvrt.Assert(res.Cmp(want) == 0, "C13:portion-variable-exact-base-ten")
	zzvrt.Reach("c13-portionvar-end")
}

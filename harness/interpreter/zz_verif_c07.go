package interpreter

import (
	"math/big"
	"strings"

	"github.com/formancehq/numscript/internal/zzvrt"
)

func zzItoa(i int) string {
	if i == 0 {
		return "0"
	}
	s := ""
	for i > 0 {
		s = string(rune('0'+i%10)) + s
		i /= 10
	}
	return s
}

// ZZC07Reconcile: shape = "a,b,a|d,<kept>,e" (sender names | receiver names).
// Amounts are arbitrary positive integers with equal totals, as the
// interpreter guarantees when it calls Reconcile.
func ZZC07Reconcile(shape string) {
	parts := strings.Split(shape, "|")
	sn := strings.Split(parts[0], ",")
	rn := strings.Split(parts[1], ",")
	n, m := len(sn), len(rn)

	zero := big.NewInt(0)
	sAmt := make([]*big.Int, n)
	rAmt := make([]*big.Int, m)
	S := make([]*big.Int, n+1) // prefix sums
	R := make([]*big.Int, m+1)
	S[0], R[0] = zero, zero
	for i := 0; i < n; i++ {
		sAmt[i] = zzvrt.BigInt("s" + zzItoa(i))
		zzvrt.Assume(zzvrt.Lt(zero, sAmt[i]))
		S[i+1] = new(big.Int).Add(S[i], sAmt[i])
	}
	for j := 0; j < m; j++ {
		rAmt[j] = zzvrt.BigInt("r" + zzItoa(j))
		zzvrt.Assume(zzvrt.Lt(zero, rAmt[j]))
		R[j+1] = new(big.Int).Add(R[j], rAmt[j])
	}
	zzvrt.Assume(zzvrt.Eq(S[n], R[m]))

	senders := make([]Sender, n)
	for i := range senders {
		senders[i] = Sender{Name: sn[i], Monetary: new(big.Int).Set(sAmt[i])}
	}
	receivers := make([]Receiver, m)
	for j := range receivers {
		receivers[j] = Receiver{Name: rn[j], Monetary: new(big.Int).Set(rAmt[j])}
	}

	postings, err := Reconcile("USD", senders, receivers)
	zzvrt.Assert(err == nil, "reconcile-no-error")
	if err != nil {
		return
	}

	// every posting is a real transfer between real accounts
	for _, p := range postings {
		zzvrt.Assert(zzvrt.Lt(zero, p.Amount), "posting-positive")
		zzvrt.Assert(p.Destination != KEPT_ADDR && p.Source != KEPT_ADDR, "posting-not-kept")
		zzvrt.Assert(p.Asset == "USD", "posting-asset")
	}

	// net flow per (source name, destination name) equals the in-order pairing
	names := func(xs []string) []string {
		var out []string
		for _, x := range xs {
			dup := false
			for _, o := range out {
				if o == x {
					dup = true
				}
			}
			if !dup {
				out = append(out, x)
			}
		}
		return out
	}
	for _, src := range names(sn) {
		for _, dst := range names(rn) {
			expected := big.NewInt(0)
			for i := 0; i < n; i++ {
				for j := 0; j < m; j++ {
					if sn[i] != src || rn[j] != dst {
						continue
					}
					// units in [max(S_i, R_j), min(S_{i+1}, R_{j+1}))
					lo := zzvrt.Max(S[i], R[j])
					hi := zzvrt.Min(S[i+1], R[j+1])
					expected.Add(expected, zzvrt.Clamp0(new(big.Int).Sub(hi, lo)))
				}
			}
			got := big.NewInt(0)
			for _, p := range postings {
				if p.Source == src && p.Destination == dst {
					got.Add(got, p.Amount)
				}
			}
			if dst == KEPT_ADDR {
				zzvrt.Assert(zzvrt.Eq(got, zero), "kept-not-posted")
			} else {
				zzvrt.Assert(zzvrt.Eq(got, expected), "flow-matches-pairing")
			}
		}
	}
	// no posting between names that were not given
	for _, p := range postings {
		okS, okD := false, false
		for _, x := range sn {
			if x == p.Source {
				okS = true
			}
		}
		for _, x := range rn {
			if x == p.Destination {
				okD = true
			}
		}
		zzvrt.Assert(okS && okD, "posting-names-known")
	}
	zzvrt.Reach("c07-reconcile-end")
}

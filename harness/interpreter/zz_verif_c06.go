package interpreter

import (
	"math/big"
	"strings"

	"github.com/formancehq/numscript/internal/parser"
	"github.com/formancehq/numscript/internal/zzvrt"
)

func zzAtoi(s string) int64 {
	var n int64
	for i := 0; i < len(s); i++ {
		n = n*10 + int64(s[i]-'0')
	}
	return n
}

func zzGcd(a, b int64) int64 {
	for b != 0 {
		a, b = b, a%b
	}
	if a == 0 {
		return 1
	}
	return a
}

// ZZC06Allot: spec = comma separated items "n/d" (literal), "vn/d" (portion
// variable), "rem" (remaining). The amount is an arbitrary integer >= 0.
func ZZC06Allot(spec string) {
	itemsS := strings.Split(spec, ",")
	k := len(itemsS)
	pn := make([]int64, k)
	pd := make([]int64, k)
	items := make([]parser.AllotmentValue, k)
	st := &programState{ParsedVars: map[string]Value{}}
	rem := -1
	var sn, sd int64 = 0, 1
	for i, it := range itemsS {
		if it == "rem" {
			rem = i
			items[i] = &parser.RemainingAllotment{}
			continue
		}
		isVar := it[0] == 'v'
		if isVar {
			it = it[1:]
		}
		nd := strings.Split(it, "/")
		pn[i], pd[i] = zzAtoi(nd[0]), zzAtoi(nd[1])
		sn, sd = sn*pd[i]+pn[i]*sd, sd*pd[i]
		g := zzGcd(sn, sd)
		sn, sd = sn/g, sd/g
		if isVar {
			name := "p" + zzItoa(i)
			st.ParsedVars[name] = Portion(*big.NewRat(pn[i], pd[i]))
			items[i] = &parser.Variable{Name: name}
		} else {
			items[i] = &parser.RatioLiteral{Numerator: big.NewInt(pn[i]), Denominator: big.NewInt(pd[i])}
		}
	}
	if rem >= 0 {
		if sn > sd {
			zzvrt.Reach("skipped-undefined-by-text")
			return
		}
		pn[rem], pd[rem] = sd-sn, sd
	}
	M := zzvrt.BigInt("amount")
	zero := big.NewInt(0)
	zzvrt.Assume(zzvrt.Le(zero, M))

	parts, err := st.makeAllotment(new(big.Int).Set(M), items)

	sumIsOne := rem >= 0 || sn == sd
	if !sumIsOne {
		_, isSumErr := err.(InvalidAllotmentSum)
		zzvrt.Assert(isSumErr, "C06:bad-sum-rejected")
		zzvrt.Reach("c06-unit-rejected")
		return
	}
	zzvrt.Assert(err == nil, "C06:valid-sum-accepted")
	if err != nil {
		return
	}
	zzvrt.Assert(len(parts) == k, "C06:one-share-per-clause")
	if len(parts) != k {
		return
	}
	total := big.NewInt(0)
	floors := make([]*big.Int, k)
	fsum := big.NewInt(0)
	for i := 0; i < k; i++ {
		total = new(big.Int).Add(total, parts[i])
		floors[i] = zzvrt.FloorDiv(zzvrt.MulK(M, pn[i]), pd[i])
		fsum = new(big.Int).Add(fsum, floors[i])
	}
	zzvrt.Assert(zzvrt.Eq(total, M), "C06:shares-sum-to-amount")
	left := new(big.Int).Sub(M, fsum)
	for i := 0; i < k; i++ {
		bonus := zzvrt.Ite(zzvrt.Lt(big.NewInt(int64(i)), left), big.NewInt(1), big.NewInt(0))
		want := new(big.Int).Add(floors[i], bonus)
		zzvrt.Assert(zzvrt.Eq(parts[i], want), "C06:floor-plus-leftmost-leftover")
		zzvrt.NoteBig("part"+zzItoa(i), parts[i])
	}
	zzvrt.Reach("c06-unit-end")
}

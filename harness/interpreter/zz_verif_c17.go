package interpreter

import (
	"context"
	"math/big"

	"github.com/formancehq/numscript/internal/analysis"
	"github.com/formancehq/numscript/internal/parser"
	"github.com/formancehq/numscript/internal/zzvrt"
)

var zzTypes = []string{"monetary", "account", "portion", "asset", "number", "string"}

func zzRequiredType(name string) string {
	if len(name) < 3 {
		return ""
	}
	switch name[:3] {
	case "mon":
		return "monetary"
	case "acc":
		return "account"
	case "por":
		return "portion"
	case "ass":
		return "asset"
	case "num":
		return "number"
	case "str":
		return "string"
	}
	return ""
}

func zzErrClass17(err InterpreterError) string {
	switch err.(type) {
	case nil:
		return ""
	case TypeError:
		return "TypeError"
	case UnboundVariableErr:
		return "UnboundVariableErr"
	case UnboundFunctionErr:
		return "UnboundFunctionErr"
	case BadArityErr:
		return "BadArityErr"
	case InvalidTypeErr:
		return "InvalidTypeErr"
	case InvalidUnboundedInSendAll:
		return "InvalidUnboundedInSendAll"
	case InvalidAllotmentInSendAll:
		return "InvalidAllotmentInSendAll"
	}
	return "other"
}

// ZZC17: whenever static analysis reports no error, running the script with
// values of the declared types never fails with a static-class error.
// deviate = number of declarations (0..2) whose declared type is arbitrary; the
// others keep the type their positions require (encoded in the variable name).
func ZZC17(script, deviate string) {
	pr := parser.Parse(script)
	if len(pr.Errors) != 0 {
		zzvrt.Reach("skipped-parse-error")
		return
	}
	prog := pr.Value
	k := len(prog.Vars)
	nDev := int(zzAtoi(deviate))
	dev := map[int]bool{}
	if nDev >= 1 && k >= 1 {
		i := zzvrt.Choice("dev1", k)
		dev[i] = true
		if nDev >= 2 && k >= 2 {
			j := zzvrt.Choice("dev2", k)
			dev[j] = true
		}
	}
	for i := range prog.Vars {
		d := prog.Vars[i]
		if d.Type == nil || d.Name == nil {
			continue
		}
		if dev[i] {
			d.Type.Name = zzTypes[zzvrt.Choice("type"+zzItoa(i), len(zzTypes))]
		} else if rt := zzRequiredType(d.Name.Name); rt != "" {
			d.Type.Name = rt
		}
	}
	res := analysis.CheckProgram(prog)
	if res.GetErrorsCount() != 0 {
		zzvrt.Reach("c17-statically-rejected")
		return
	}
	clean := len(res.Diagnostics) == 0

	vars := map[string]string{}
	for _, d := range prog.Vars {
		if d.Origin != nil || d.Name == nil || d.Type == nil {
			continue
		}
		n := d.Name.Name
		switch d.Type.Name {
		case "monetary":
			vars[n] = "USD " + zzvrt.Dec(zzvrt.BigInt("v_"+n))
		case "number":
			vars[n] = zzvrt.Dec(zzvrt.BigInt("v_" + n))
		case "account":
			vars[n] = "a"
		case "asset":
			vars[n] = "USD"
		case "portion":
			vars[n] = "1/2"
		case "string":
			vars[n] = "k"
		}
	}
	bal := Balances{}
	for _, acc := range []string{"a", "b", "c", "d", "e"} {
		bal[acc] = AccountBalance{"USD": zzvrt.BigInt("bal_" + acc)}
	}
	meta := AccountsMetadata{}
	for _, acc := range []string{"a", "b"} {
		meta[acc] = AccountMetadata{"k": "7", "m": "USD 7", "acc": "b", "p": "1/4", "s": "text", "as": "USD"}
	}
	store := StaticStore{Balances: bal, Meta: meta}
	flags := map[string]struct{}{ExperimentalOverdraftFunctionFeatureFlag: {}}
	_, err := RunProgram(context.Background(), prog, vars, store, flags)
	cls := zzErrClass17(err)
	zzvrt.Note("result=" + cls)
	static := cls == "TypeError" || cls == "UnboundVariableErr" || cls == "UnboundFunctionErr" || cls == "BadArityErr" || cls == "InvalidTypeErr"
	zzvrt.Assert(!static, "C17:no-static-class-failure-after-clean-check")
	if clean {
		zzvrt.Assert(cls != "InvalidUnboundedInSendAll" && cls != "InvalidAllotmentInSendAll", "C17:no-sendall-shape-failure-without-diagnostics")
	}
	zzvrt.Reach("c17-end")
}

var _ = big.NewInt

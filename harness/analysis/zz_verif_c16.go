package analysis

import (
	"math/big"

	"github.com/formancehq/numscript/internal/parser"
	"github.com/formancehq/numscript/internal/zzvrt"
)

func zzItoa(i int) string {
	if i == 0 {
		return "0"
	}
	s := ""
	for i > 0 {
		s = string(rune('0'+i%10)) + s
		i /= 10
	}
	return s
}

// zzUses lists every variable occurrence of the program: in origins (with the
// index of the declaration they belong to) and in statements (declIdx = -1).
type zzUse struct {
	v       *parser.Variable
	declIdx int
}

type zzWalker struct {
	uses   []zzUse
	allots [][]parser.AllotmentValue
}

func (w *zzWalker) expr(x parser.ValueExpr, declIdx int) {
	switch x := x.(type) {
	case *parser.Variable:
		if x != nil {
			w.uses = append(w.uses, zzUse{x, declIdx})
		}
	case *parser.MonetaryLiteral:
		if x != nil {
			w.expr(x.Asset, declIdx)
			w.expr(x.Amount, declIdx)
		}
	case *parser.BinaryInfix:
		if x != nil {
			w.expr(x.Left, declIdx)
			w.expr(x.Right, declIdx)
		}
	}
}

func (w *zzWalker) allotVal(a parser.AllotmentValue) {
	if v, ok := a.(*parser.Variable); ok && v != nil {
		w.uses = append(w.uses, zzUse{v, -1})
	}
}

func (w *zzWalker) source(s parser.Source) {
	switch s := s.(type) {
	case *parser.SourceAccount:
		w.expr(s.ValueExpr, -1)
	case *parser.SourceOverdraft:
		w.expr(s.Address, -1)
		if s.Bounded != nil {
			w.expr(*s.Bounded, -1)
		}
	case *parser.SourceInorder:
		for _, x := range s.Sources {
			w.source(x)
		}
	case *parser.SourceCapped:
		w.expr(s.Cap, -1)
		w.source(s.From)
	case *parser.SourceAllotment:
		var items []parser.AllotmentValue
		for _, it := range s.Items {
			w.allotVal(it.Allotment)
			items = append(items, it.Allotment)
			w.source(it.From)
		}
		w.allots = append(w.allots, items)
	}
}

func (w *zzWalker) kod(k parser.KeptOrDestination) {
	if t, ok := k.(*parser.DestinationTo); ok && t != nil {
		w.dest(t.Destination)
	}
}

func (w *zzWalker) dest(d parser.Destination) {
	switch d := d.(type) {
	case *parser.DestinationAccount:
		w.expr(d.ValueExpr, -1)
	case *parser.DestinationInorder:
		for _, c := range d.Clauses {
			w.expr(c.Cap, -1)
			w.kod(c.To)
		}
		w.kod(d.Remaining)
	case *parser.DestinationAllotment:
		var items []parser.AllotmentValue
		for _, it := range d.Items {
			w.allotVal(it.Allotment)
			items = append(items, it.Allotment)
			w.kod(it.To)
		}
		w.allots = append(w.allots, items)
	}
}

func (w *zzWalker) program(p parser.Program) {
	for i, d := range p.Vars {
		if d.Origin != nil {
			for _, a := range d.Origin.Args {
				w.expr(a, i)
			}
		}
	}
	for _, st := range p.Statements {
		switch st := st.(type) {
		case *parser.SendStatement:
			switch sv := st.SentValue.(type) {
			case *parser.SentValueLiteral:
				w.expr(sv.Monetary, -1)
			case *parser.SentValueAll:
				w.expr(sv.Asset, -1)
			}
			w.source(st.Source)
			w.dest(st.Destination)
		case *parser.SaveStatement:
			switch sv := st.SentValue.(type) {
			case *parser.SentValueLiteral:
				w.expr(sv.Monetary, -1)
			case *parser.SentValueAll:
				w.expr(sv.Asset, -1)
			}
			w.expr(st.Amount, -1)
		case *parser.FnCall:
			for _, a := range st.Args {
				w.expr(a, -1)
			}
		}
	}
}

func zzSameRange(a, b parser.Range) bool {
	return a.Start.Line == b.Start.Line && a.Start.Character == b.Start.Character && a.End.Line == b.End.Line && a.End.Character == b.End.Character
}

// ZZC16Names: every declaration name and every use takes any name of the pool
// (deleting / duplicating / renaming declarations and uses are all instances).
// Unbound, duplicate and unused variables must be reported exactly once each,
// at the token concerned, and no other variable may be reported.
func ZZC16Names(script, pool string) {
	pr := parser.Parse(script)
	if len(pr.Errors) != 0 {
		zzvrt.Reach("skipped-parse-error")
		return
	}
	var names []string
	cur := ""
	for i := 0; i <= len(pool); i++ {
		if i == len(pool) || pool[i] == ',' {
			names = append(names, cur)
			cur = ""
			continue
		}
		cur += string(pool[i])
	}
	prog := pr.Value
	w := &zzWalker{}
	w.program(prog)
	for i, d := range prog.Vars {
		d.Name.Name = names[zzvrt.Choice("decl"+zzItoa(i), len(names))]
	}
	for j, u := range w.uses {
		u.v.Name = names[zzvrt.Choice("use"+zzItoa(j), len(names))]
	}
	res := CheckProgram(prog)

	type exp struct {
		kind string
		name string
		rng  parser.Range
	}
	var want []exp
	firstDecl := map[string]int{}
	for i, d := range prog.Vars {
		if _, dup := firstDecl[d.Name.Name]; dup {
			want = append(want, exp{"dup", d.Name.Name, d.Name.Range})
		} else {
			firstDecl[d.Name.Name] = i
		}
	}
	usedAfterDecl := map[string]bool{}
	for _, u := range w.uses {
		fd, declared := firstDecl[u.v.Name]
		// an origin is evaluated before its variable is bound: a use inside the origin of
		// declaration i sees declarations 0..i-1 only
		bound := declared && (u.declIdx == -1 || fd < u.declIdx)
		if !bound {
			want = append(want, exp{"unbound", u.v.Name, u.v.Range})
		} else {
			usedAfterDecl[u.v.Name] = true
		}
	}
	for name, i := range firstDecl {
		// a mention where the variable is not yet declared is a use of an undeclared variable
		// (reported as such above); it does not make the later declaration a used one
		if !usedAfterDecl[name] {
			want = append(want, exp{"unused", name, prog.Vars[i].Name.Range})
		}
	}
	// compare as multisets
	matched := make([]bool, len(want))
	for _, d := range res.Diagnostics {
		var kind, name string
		switch k := d.Kind.(type) {
		case *UnboundVariable:
			kind, name = "unbound", k.Name
		case *DuplicateVariable:
			kind, name = "dup", k.Name
		case *UnusedVar:
			kind, name = "unused", k.Name
		default:
			continue
		}
		found := false
		for i, e := range want {
			if !matched[i] && e.kind == kind && e.name == name && zzSameRange(e.rng, d.Range) {
				matched[i] = true
				found = true
				break
			}
		}
		zzvrt.Assert(found, "C16:no-spurious-or-repeated-variable-diagnostic")
	}
	for i := range want {
		zzvrt.Assert(matched[i], "C16:variable-problem-reported-at-its-token")
	}
	zzvrt.Reach("c16-names-end")
}

// ZZC16Valid: a statically valid script gets no error-severity diagnostic;
// literal portions are decided for ALL numerators (symbolic) with the written
// denominators: accepted exactly when they sum to one (or at most one with `remaining`).
func ZZC16Valid(script string) {
	pr := parser.Parse(script)
	if len(pr.Errors) != 0 {
		zzvrt.Reach("skipped-parse-error")
		return
	}
	prog := pr.Value
	res := CheckProgram(prog)
	for _, d := range res.Diagnostics {
		if d.Kind.Severity() == ErrorSeverity {
			zzvrt.Note("diagnostic: " + d.Kind.Message())
		}
	}
	zzvrt.Assert(res.GetErrorsCount() == 0, "C16:valid-script-has-no-error")

	// symbolic numerators
	w := &zzWalker{}
	w.program(prog)
	k := 0
	valid := true
	for _, items := range w.allots {
		sum := big.NewRat(0, 1)
		hasRemaining := false
		allLiteral := true
		for _, it := range items {
			switch a := it.(type) {
			case *parser.RatioLiteral:
				n := zzvrt.BigInt("num" + zzItoa(k))
				k++
				zzvrt.Assume(zzvrt.Le(big.NewInt(0), n))
				a.Numerator = n
				sum = new(big.Rat).Add(sum, new(big.Rat).SetFrac(n, a.Denominator))
			case *parser.RemainingAllotment:
				hasRemaining = true
			default:
				allLiteral = false
			}
		}
		if !allLiteral {
			zzvrt.Reach("c16-valid-end")
			return
		}
		one := big.NewRat(1, 1)
		if hasRemaining {
			valid = zzvrt.And(valid, sum.Cmp(one) <= 0)
		} else {
			valid = zzvrt.And(valid, sum.Cmp(one) == 0)
		}
	}
	if k > 0 {
		res2 := CheckProgram(prog)
		bad := false
		for _, d := range res2.Diagnostics {
			if _, ok := d.Kind.(*BadAllotmentSum); ok {
				bad = true
			}
		}
		zzvrt.Assert(zzvrt.Implies(valid, res2.GetErrorsCount() == 0), "C16:portions-summing-to-one-accepted")
		zzvrt.Assert(zzvrt.Implies(zzvrt.Not(valid), bad), "C16:portions-not-summing-to-one-rejected")
	}
	zzvrt.Reach("c16-valid-end")
}

// ZZVariableUses / ZZFnCalls expose the harness's own tree walk to the lsp harness.
func ZZVariableUses(p parser.Program) []*parser.Variable {
	w := &zzWalker{}
	w.program(p)
	var out []*parser.Variable
	for _, u := range w.uses {
		out = append(out, u.v)
	}
	return out
}

func ZZFnCalls(p parser.Program) []*parser.FnCall {
	var out []*parser.FnCall
	for _, d := range p.Vars {
		if d.Origin != nil && d.Origin.Caller != nil {
			out = append(out, d.Origin)
		}
	}
	for _, st := range p.Statements {
		if f, ok := st.(*parser.FnCall); ok && f != nil && f.Caller != nil {
			out = append(out, f)
		}
	}
	return out
}

// ZZC16After: analysing one script leaves nothing behind that changes the analysis of
// the next one in the same process: the valid script `second` still gets no
// error-severity diagnostic after `first` (any text) has been analysed, and exactly
// the diagnostics it gets on its own.
func ZZC16After(first, second string) {
	alone := CheckSource(second)
	var aloneMsgs []string
	for _, d := range alone.Diagnostics {
		aloneMsgs = append(aloneMsgs, d.Kind.Message())
	}
	r1 := CheckSource(first)
	for _, d := range r1.Diagnostics {
		_ = d.Kind.Message()
	}
	res := CheckSource(second)
	for _, d := range res.Diagnostics {
		if d.Kind.Severity() == ErrorSeverity {
			zzvrt.Note("diagnostic: " + d.Kind.Message())
		}
		zzvrt.Assert(d.Kind.Severity() != ErrorSeverity, "C16:valid-script-has-no-error-after-another-analysis")
	}
	zzvrt.Assert(len(res.Diagnostics) == len(aloneMsgs), "C16:analysis-independent-of-earlier-analyses")
	if len(res.Diagnostics) == len(aloneMsgs) {
		for i, d := range res.Diagnostics {
			zzvrt.Assert(d.Kind.Message() == aloneMsgs[i], "C16:analysis-independent-of-earlier-analyses")
		}
	}
	zzvrt.Reach("c16-after-end")
}

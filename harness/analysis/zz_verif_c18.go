package analysis

import (
	"strings"
	"unicode/utf8"

	"github.com/formancehq/numscript/internal/parser"
	"github.com/formancehq/numscript/internal/zzvrt"
)

func zzDiagKey(d Diagnostic) string {
	name := "other:" + d.Kind.Message()
	switch d.Kind.(type) {
	case *Parsing:
		name = "Parsing"
	case *InvalidType:
		name = "InvalidType"
	case *DuplicateVariable:
		name = "DuplicateVariable"
	case *UnboundVariable:
		name = "UnboundVariable"
	case *UnusedVar:
		name = "UnusedVar"
	case *TypeMismatch:
		name = "TypeMismatch"
	case *RemainingIsNotLast:
		name = "RemainingIsNotLast"
	case *BadAllotmentSum:
		name = "BadAllotmentSum"
	case *FixedPortionVariable:
		name = "FixedPortionVariable"
	case *RedundantRemaining:
		name = "RedundantRemaining"
	case *UnknownFunction:
		name = "UnknownFunction"
	case *BadArity:
		name = "BadArity"
	case *InvalidWorldOverdraft:
		name = "InvalidWorldOverdraft"
	case *NoAllotmentInSendAll:
		name = "NoAllotmentInSendAll"
	case *InvalidUnboundedAccount:
		name = "InvalidUnboundedAccount"
	case *EmptiedAccount:
		name = "EmptiedAccount"
	case *UnboundedAccountIsNotLast:
		name = "UnboundedAccountIsNotLast"
	}
	r := d.Range
	return name + "@" + zzItoa(r.Start.Line) + ":" + zzItoa(r.Start.Character) + "-" + zzItoa(r.End.Line) + ":" + zzItoa(r.End.Character)
}

func zzSortStrings(xs []string) {
	for i := 1; i < len(xs); i++ {
		for j := i; j > 0 && xs[j] < xs[j-1]; j-- {
			xs[j], xs[j-1] = xs[j-1], xs[j]
		}
	}
}

// ZZC18: static analysis, symbol listing, hover and go-to-definition on the
// tree the real parser produces for `text` (any text, usually broken).
func ZZC18(text string) {
	res := CheckSource(text)
	syms := res.GetSymbols()

	// diagnostics are located inside the document (or at its end) and do not end before they start
	lines := strings.Split(text, "\n")
	for _, d := range res.Diagnostics {
		s, e := d.Range.Start, d.Range.End
		inDoc := s.Line >= 0 && s.Line < len(lines) && s.Character >= 0
		if inDoc {
			inDoc = s.Character <= utf8.RuneCountInString(lines[s.Line])
		}
		zzvrt.Assert(inDoc, "C18:diagnostic-starts-inside-the-document")
		zzvrt.Assert(e.GtEq(s), "C18:diagnostic-does-not-end-before-it-starts")
	}

	// the same text analysed again, under every iteration order of the checker's maps
	zzvrt.MapOrder(true)
	res2 := CheckSource(text)
	syms2 := res2.GetSymbols()
	zzvrt.MapOrder(false)
	var k1, k2 []string
	for _, d := range res.Diagnostics {
		k1 = append(k1, zzDiagKey(d))
	}
	for _, d := range res2.Diagnostics {
		k2 = append(k2, zzDiagKey(d))
	}
	zzSortStrings(k1)
	zzSortStrings(k2)
	zzvrt.Assert(strings.Join(k1, ";") == strings.Join(k2, ";"), "C18:same-diagnostics-on-reanalysis")
	var s1, s2 []string
	for _, s := range syms {
		s1 = append(s1, s.Name+":"+s.Detail+"@"+zzItoa(s.Range.Start.Line)+":"+zzItoa(s.Range.Start.Character))
	}
	for _, s := range syms2 {
		s2 = append(s2, s.Name+":"+s.Detail+"@"+zzItoa(s.Range.Start.Line)+":"+zzItoa(s.Range.Start.Character))
	}
	zzSortStrings(s1)
	zzSortStrings(s2)
	zzvrt.Assert(strings.Join(s1, ";") == strings.Join(s2, ";"), "C18:same-symbols-on-reanalysis")
	for _, k := range k1 {
		zzvrt.Note(k)
	}

	// hover and go-to-definition at EVERY position
	pos := parser.Position{Line: zzvrt.Int("line", 0, 1<<30), Character: zzvrt.Int("char", 0, 1<<30)}
	h := HoverOn(res.Program, pos)
	g := GotoDefinition(res.Program, pos, res)
	_ = h
	_ = g
	zzvrt.Reach("c18-end")
}
